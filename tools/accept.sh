#!/bin/sh
# tools/accept.sh  - acceptance run of the machinery on the current trees: every quick check at VERIF_SEED 1..3 and every thorough
# check at seed 1, each in a fresh process; prints one line per run and a list of non-zero exits at the end.
# tools/accept.sh C05 C09 ...  - the same for the named properties only (after a change to their checks)
cd "$(dirname "$0")/.."
bad=""
for id in ${*:-C01 C02 C03 C04 C05 C06 C07 C08 C09 C10 C11 C12 C13 C14 C15 C16 C17 C18 C19 C20}; do
  for s in 1 2 3; do
    VERIF_SEED=$s ./check $id quick > /tmp/accept.$$ 2>&1; rc=$?
    grep -E "^$id |VIOLATION|HARNESS-ERROR" /tmp/accept.$$ | cut -c1-200
    [ $rc -ne 0 ] && bad="$bad $id@quick/$s(rc=$rc)"
  done
  ./check $id thorough > /tmp/accept.$$ 2>&1; rc=$?
  grep -E "^$id |VIOLATION|HARNESS-ERROR" /tmp/accept.$$ | cut -c1-200
  [ $rc -ne 0 ] && { bad="$bad $id@thorough(rc=$rc)"; grep -A25 "HARNESS-ERROR" /tmp/accept.$$ | cut -c1-200 | head -40; }
done
rm -f /tmp/accept.$$
echo "NON-ZERO:${bad:- none}"
