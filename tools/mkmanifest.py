#!/usr/bin/env python3
"""Regenerates MANIFEST.json from the per-property table below (claimed = props/<id>.py exists)."""
import json
from pathlib import Path

V = Path(__file__).resolve().parent.parent
BASELINE = json.loads(Path("/root/.vp/BASELINE.json").read_text())["cmd"].replace("<file>", "/tmp/baseline.junit.xml")

P = {
    "C01": ("round-trip PBT (Hypothesis) + exhaustive payload sub-ranges", "4 C01",
            "Generated and enumerated values written through Table.write, saved, reopened and compared with == "
            "(type and value), also on tables with merged ranges that hide whole rows; a payload lane writes every integer and price of a sub-range through Table.write and packs/unpacks its 16-byte number record.",
            "Positions are capped at row ~1100 / column ~1000 for cost; values follow the property's stated domains."),
    "C02": ("metamorphic round-trip over whole-document snapshots", "4 C02",
            "Every supported fixture and generated documents are re-saved 2-3 times with generated accessor vectors, as single files and in "
            "package-folder form (fresh folder, same folder, two saves from one handle); whole-document snapshots (type, value, formula, formatted value, merges, bullets) must be identical.",
            "The snapshot is taken through the public API; cells/tables the library warns it cannot write are exempt as the property says."),
    "C03": ("model-based stateful PBT (Hypothesis RuleBasedStateMachine) + bounded-exhaustive short histories", "4 C03",
            "Edit histories (incl. overwrites with ==-equal values of another type) run in lock-step against a list-of-lists model across several documents/tables; every short history on tiny tables is enumerated.",
            "Merged regions and styles are left to C12/C15; deletion below header counts is not generated (undocumented)."),
    "C04": ("exhaustive enumeration + differential against an independent record codec", "4 C04",
            "All kinds x all 2^12 optional-field subsets encode->decode through the library and through an independent codec written from the published layout; all flag words decode with each field's own sentinel, and with the id 0 in each optional field in turn.",
            "The layout reference is the SheetJS note the docs defer to; a stub model stands in for string/rich-text lookups."),
    "C05": ("round-trip + metamorphic re-chunking against an independent IWA codec", "4 C05",
            "Fixture archives, API-generated archives and synthetic archives (around the 64 KiB boundaries, with merge patches, with every header size across the varint boundaries) are decoded/encoded by the library and compared byte-for-byte (uncompressed stream) with an independent codec; re-chunkings must decode identically.",
            "python-snappy and protobuf are trusted; stored chunks that are themselves valid snappy are ambiguous in the format and excluded."),
    "C06": ("metamorphic PBT over meaning-preserving file rewrites", "4 C06",
            "Files are rewritten (list permutation, re-chunking, member order/compression, package form, offset width, explicit empty-row header records, row records of empty rows removed or added, row records shuffled) with an independent codec and must read as the same snapshot.",
            "Lookup lists are maps (the property's premise)."),
    "C07": ("validity-predicate PBT with an independent package validator", "4 C07",
            "Every package saved after generated histories (also from documents whose tile archives are folded into one) is decoded independently and checked for referential closure, id uniqueness/high-water mark, metadata inventory and tile/row/offset geometry (a tile's numrows equals its number of row records).",
            "Apple Numbers itself is unavailable; the predicate is the property's own list."),
    "C08": ("grammar-based program generation + independent infix parser (round-trip on trees)", "4 C08",
            "Expression trees are serialised to Numbers' post-fix node arrays, stored, re-read through Cell.formula and parsed by an independent precedence-climbing parser; trees must be equal.",
            "Formula archives are installed through private structures (no public writer); observation is public."),
    "C09": ("configuration generation + independent reference resolver", "4 C09",
            "Naming configurations and reference nodes are generated; printed references are resolved by an independent resolver and must name exactly the stored target, also after label edits, renames, "
            "header-count changes, insertions, header merges and header formats on the open document (cache invalidation).",
            "Bare table names resolve host sheet first, then document; over-qualification is allowed."),
    "C10": ("exhaustive enumeration against an independent bijective base-26 codec", "4 C10",
            "Every column name of up to three letters and every row up to the documented limit is encoded and decoded by every conversion function and compared with an independent codec; enumeration makes this a decision per axis.",
            "Range corners are sampled over the product (boundary product + Hypothesis)."),
    "C11": ("model-based stateful PBT + boundary product enumeration", "4 C11",
            "Every position-taking method is driven with both notations of the same generated position against a grid model (values, and which cell edges carry a border); boundary products of iterator bounds are enumerated.",
            "Growth is exercised to ~1200 rows / 1000 columns; the limits themselves only on the rejecting side."),
    "C12": ("model-based stateful PBT + exhaustive rectangles on small tables", "4 C12",
            "Disjoint rectangle sets (named by any two opposite corners) and subsequent edit histories (writes incl. placeholders, structural edits, tables added after a save, tall tables) are checked against a rectangle model on the open document and after reload.",
            "For edits that cut through a rectangle only internal consistency is required (shape unspecified)."),
    "C13": ("PBT with exact-decimal read-back oracle", "4 C13",
            "Generated (value, format) pairs - and sequences of formats on one cell - are rendered and the text is parsed back in that notation with exact rational arithmetic; |parsed - value| must be within half a unit of the last displayed place (15 significant digits and no padded zero under automatic decimals); accounting layout under all four negative styles.",
            "Either tie-breaking rule is accepted."),
    "C14": ("per-field exhaustive enumeration + PBT compositions against documented meaning", "4 C14",
            "Every directive is rendered for every value of the field it depends on and compared with calendar arithmetic; durations are read back unit by unit.",
            "English names; where docs and Numbers-authored workbooks disagree the documented set is accepted."),
    "C15": ("model-based PBT (attribute model + last-writer-wins edge model)", "4 C15",
            "Generated styles and stroke sequences (incl. merges, styles on hidden cells, restyled saved cells, table growth, shared Border objects, edits of saved styles) are compared with an attribute/edge model on the open document and after reload; packages saved with and without reading styles are compared object by object.",
            "Float attributes are generated float32-representable; widths with <=2 decimals."),
    "C16": ("metamorphic round-trip over geometry snapshots, queried vs unqueried", "4 C16",
            "Geometry snapshots of fixtures, of fixtures with sizes set through the API, and of generated documents (settings before or after a first save) must survive cycles, independent of which getters were called.",
            "Sizes are integer points in 5..500, one in three at or next to the table default."),
    "C17": ("structure-aware fault injection with an exception-type oracle", "4 C17",
            "Generated truncations, bit flips, per-member faults (incl. well-formed but unusable headers and plists) and missing paths are applied to real files in single-file, package-folder and nested-Index.zip form (inner and outer zip records); Document(path) must return or raise one of the three library error types while the loader is on the stack.",
            "Exceptions raised after the container loader returned are out of scope and only counted."),
    "C18": ("exhaustive short strings + PBT + reader-output corpus with a lossless/total oracle", "4 C18",
            "All short strings over the tokenizer's alphabet, generated strings, every formula text the reader emits for fixtures and generated references are tokenized; only TokenizerError may escape and tokens must concatenate to the input.",
            "The alphabet is the property's; longer strings are sampled."),
    "C19": ("model-based stateful PBT", "4 C19",
            "Add/rename/lookup histories on sheet and table collections run against an ordered-name model, with reload.",
            "Renaming onto a sibling's name is not generated (not covered by the statement)."),
    "C20": ("round-trip PBT through both CLIs with Python's csv module as reference", "4 C20",
            "Generated CSV grids are converted by csv2numbers main() and exported by cat-numbers main() in-process and compared cell by cell.",
            "Python's csv module defines well-formed CSV; numeric = float() accepts it (commas only as thousands separators) and it is finite."),
}

checks, na = [], []
for pid, (tech, ref, text, note) in P.items():
    if (V / "props" / f"{pid.lower()}.py").exists():
        checks.append({
            "property_id": pid,
            "quick_cmd": f"./check {pid} quick",
            "thorough_cmd": f"./check {pid} thorough",
            "evidence_file": f"evidence/{pid}.json",
            "replay_cmd_template": f"./check {pid} --replay {{path}}",
            "engine": "vf",
            "level_claimed": {"category": "exploration", "text": text, "design_ref": f"DESIGN.md section {ref}"},
            "level_note": note,
            "technique": tech,
        })
    else:
        na.append({"property_id": pid, "reason": "check not built yet in this tree (planned in DESIGN.md section 4); not claimed until it exists"})

manifest = {
    "version": 1,
    "setup_cmd": "/venv/bin/pip install -q --no-index --find-links /opt/veriftools/wheels hypothesis",
    "hooks": {
        "guard": "NUMBERS_PARSER_VERIF",
        "enable": "no hooks are needed: checks import the working tree (VERIF_REPO, default /repo) in a fresh interpreter",
        "baseline_off_cmd": BASELINE,
        "source_commits": [],
        "add_only": True,
    },
    "engines": [{"name": "vf", "path": "vf/", "serves_properties": [c["property_id"] for c in checks],
                 "kind_free_text": "property-based testing / fuzzing harness on Hypothesis with sharded enumeration, independent codecs and reference models"}],
    "checks": checks,
    "notes": "Exit 0 held / 1 VIOLATION / 2 harness error. Known findings: known_findings.json. Seeds: VERIF_SEED.",
    "not_applicable": na,
}
(V / "MANIFEST.json").write_text(json.dumps(manifest, indent=1) + "\n")
print("claimed", [c["property_id"] for c in checks])
