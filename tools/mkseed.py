#!/usr/bin/env python3
"""tools/mkseed.py <round> <ID>...  - prepares scratch worktrees /tmp/seed<round>_<ID> of /repo (HEAD) with PROPERTY.txt and TASK.md for a
sub-agent that is to seed a realistic property-breaking change.  The agent sees only the property text and, from round 2 on, one-sentence
summaries of the changes proposed before (so that it proposes something different).  Nothing from /verif is copied."""
import json
import subprocess
import sys
from pathlib import Path

V = Path(__file__).resolve().parent.parent
props = {json.loads(l)["id"]: json.loads(l) for l in open(V / "properties.jsonl")}
rnd = sys.argv[1]
for pid in sys.argv[2:]:
    d = props[pid]
    wt = Path(f"/tmp/seed{rnd}_{pid}")
    if not wt.exists():
        subprocess.run(["git", "-C", "/repo", "worktree", "add", "--detach", str(wt), "HEAD"], check=True, capture_output=True)
    (wt / "PROPERTY.txt").write_text(f"{pid}: {d['title']}\n\nStatement:\n{d['statement']}\n\nQuantified over:\n{d['quantifier']['text']}\n")
    prior = [json.loads((m).read_text())["summary"] for m in sorted((V / "seeded").glob(f"{pid}-*/meta.json"))]
    other = ""
    if prior:
        other = ("IMPORTANT: other engineers have already proposed the following changes for this property; yours must be DIFFERENT in mechanism, in the "
                 "code site it touches and in what it needs to manifest:\n" + "\n".join(f'- "{p}"' for p in prior) + "\n\n")
    (wt / "TASK.md").write_text(f"""You are working in a scratch git worktree of the Python library `numbers-parser` (reader/writer for Apple Numbers .numbers files) at {wt}. Work ONLY inside {wt} (never touch /repo or /verif, and do not read anything under /verif or other /tmp/seed* directories). Python with all dependencies is /venv/bin/python; ALWAYS run code with `PYTHONPATH={wt}/src` so that the worktree's sources are imported (otherwise an installed copy from elsewhere is used). Run tests as: `cd {wt} && PYTHONPATH={wt}/src /venv/bin/python -m pytest -p no:cacheprovider --no-cov -q tests/<file>.py` (tests whose id ends in `[subprocess]`, tests/test_formulas.py::test_parse_formulas and tests/test_issues.py::test_issue_50 fail on the unchanged tree already - ignore those). Do NOT use `git stash` (it is shared with other worktrees).

Read {wt}/PROPERTY.txt: it states a semantic property the library is supposed to satisfy. Your task: make ONE realistic source change under {wt}/src/numbers_parser/ (the kind of slip a maintainer could plausibly commit during a refactor, optimisation or feature addition) that BREAKS this property while the package still imports and the existing test-suite still passes (run at least the test files that exercise the code you touched, ideally the whole suite: `PYTHONPATH={wt}/src /venv/bin/python -m pytest -p no:cacheprovider --no-cov -q --deselect tests/test_formulas.py::test_parse_formulas --deselect tests/test_issues.py::test_issue_50 -k "not subprocess"`, takes ~5 minutes).

The change must need something specific to manifest - a particular value class, boundary, option combination, call order, document shape or history; or two cooperating sites that each look fine alone. It must NOT be something ordinary use or the existing tests would expose at once, and it must not be a trivial special case keyed on a magic constant - make it look like a genuine bug.

{other}Deliver, inside {wt}/_seed/ :
1. `patch.diff` - output of `git -C {wt} diff -- src` (source change only).
2. `demo.py` - a small standalone program (run as `PYTHONPATH=<tree>/src /venv/bin/python demo.py` with the tree as current directory) that exits 0 on the unchanged tree and exits 1 (printing what went wrong) with your change applied. Verify both, switching with `git -C {wt} apply -R _seed/patch.diff` and `git -C {wt} apply _seed/patch.diff`.
3. `meta.json` - {{"property": "{pid}", "summary": one sentence on what the change does, "needs": what is required for it to manifest, "tests_run": the test command(s) you ran and their pass/fail summary}}.
Leave the source change applied in the worktree when done. If the Write tool refuses a file, create it with a shell heredoc. Report briefly what you did.
""")
    print(wt, len(prior), "prior proposals")
