#!/usr/bin/env python3
"""tools/keepseed.py <agent _seed dir> <ID> <slug> <quick_check outcome text> [--superseded]
Copies an independently seeded change into seeded/<ID>-<slug>/ and records what was verified here (tools/tryseed output)."""
import json
import shutil
import subprocess
import sys
from pathlib import Path

V = Path(__file__).resolve().parent.parent
src, pid, slug, outcome = Path(sys.argv[1]), sys.argv[2], sys.argv[3], sys.argv[4]
superseded = "--superseded" in sys.argv
dst = V / "seeded" / f"{pid}-{slug}"
dst.mkdir(parents=True, exist_ok=True)
shutil.copy(src / "patch.diff", dst / ("patch.superseded.diff" if superseded else "patch.diff"))
shutil.copy(src / "demo.py", dst / "demo.py")
meta = json.loads((src / "meta.json").read_text())
out = subprocess.run([str(V / "tools" / "tryseed"), str(src), pid], capture_output=True, text=True).stdout
ex = {k: None for k in ("unchanged", "changed")}
for ln in out.splitlines():
    if ln.startswith("demo on unchanged tree: exit="):
        ex["unchanged"] = int(ln.split("=")[1])
    if ln.startswith("demo on changed tree: exit="):
        ex["changed"] = int(ln.split("=")[1])
check_exit = [ln for ln in out.splitlines() if ln.startswith("exit=")]
meta["verified_here"] = {
    "demo_unchanged_exit": ex["unchanged"], "demo_changed_exit": ex["changed"],
    "command": f"tools/tryseed seeded/{pid}-{slug} {pid}",
    "quick_check_exit": check_exit[-1] if check_exit else None,
    "quick_check": outcome,
    "baseline_tests": meta.get("tests_run", "")[:200],
}
(dst / "meta.json").write_text(json.dumps(meta, indent=1) + "\n")
print(dst, meta["verified_here"])
