#!/bin/sh
# tools/seedsweep.sh [seeds...]  - every quick check at several VERIF_SEED values; prints one line per run, lists non-zero exits at the end
cd "$(dirname "$0")/.." || exit 2
seeds="${*:-2 3 4 5}"
bad=""
for id in C01 C02 C03 C04 C05 C06 C07 C08 C09 C10 C11 C12 C13 C14 C15 C16 C17 C18 C19 C20; do
  for s in $seeds; do
    out="$(VERIF_SEED=$s VERIF_EVIDENCE_DIR=/tmp/sweep_evidence ./check $id quick 2>&1)"; rc=$?
    echo "$out" | grep -E "^$id |VIOLATION|HARNESS" | cut -c1-220
    [ $rc -ne 0 ] && bad="$bad $id@$s(rc=$rc)"
  done
done
rm -rf /tmp/sweep_evidence
echo "NON-ZERO:$bad"
