#!/usr/bin/env python3
"""Compare a junit xml of the baseline suite with BASELINE.json's stable_pass list."""
import json, sys
import xml.etree.ElementTree as ET
base = json.load(open("/root/.vp/BASELINE.json"))
want = set(base["stable_pass"])
root = ET.parse(sys.argv[1]).getroot()
passed = set()
for tc in root.iter("testcase"):
    name = f"{tc.get('classname')}::{tc.get('name')}"
    if not any(ch.tag in ("failure", "error", "skipped") for ch in tc):
        passed.add(name)
missing = sorted(want - passed)
print(f"stable_pass={len(want)} passed_now={len(passed & want)} missing={len(missing)}")
for m in missing: print("  MISSING", m)
sys.exit(1 if missing else 0)
