import json, subprocess, sys
from pathlib import Path
props = {json.loads(l)["id"]: json.loads(l) for l in open("/verif/properties.jsonl")}
known = json.loads(open("/verif/known_findings.json").read())["findings"]
NOT_COUNTED = open("/verif/tools/hunt_not_counted.txt").read() if Path("/verif/tools/hunt_not_counted.txt").exists() else ""
for pid in [a for a in sys.argv[1:] if not a.isdigit()]:
    d = props[pid]
    wt = Path(f"/tmp/hunt{sys.argv[1] if sys.argv[1].isdigit() else ''}_{pid}")
    if not wt.exists():
        subprocess.run(["git", "-C", "/repo", "worktree", "add", "--detach", str(wt), "HEAD"], check=True, capture_output=True)
    text = f"{pid}: {d['title']}\n\nStatement:\n{d['statement']}\n\nQuantified over:\n{d['quantifier']['text']}\n\nCode anchors:\n"
    for f in d["anchors"].get("files", []):
        text += f"  file {f}\n"
    for m in d["anchors"].get("mechanism", []):
        text += f"  {m['name']}: {m['where']}\n"
    text += "\nObserve at: " + ", ".join(d["anchors"].get("observe_at", [])) + "\n"
    (wt / "PROPERTY.txt").write_text(text)
    (wt / "TASK.md").write_text(f"""You are working in a scratch git worktree of the Python library `numbers-parser` (reader/writer for Apple Numbers .numbers files) at {wt}. Work ONLY inside {wt} (never touch /repo or /verif, and do not read anything under /verif or other /tmp directories). Python with all dependencies is /venv/bin/python; ALWAYS run code with `PYTHONPATH={wt}/src` so that the worktree's sources are imported (otherwise an installed copy from elsewhere is used). Do NOT modify anything under {wt}/src or {wt}/tests. Do NOT use `git stash`. If you run the tests, use `cd {wt} && PYTHONPATH={wt}/src /venv/bin/python -m pytest -p no:cacheprovider --no-cov -q tests/<file>.py`.

Read {wt}/PROPERTY.txt: it states a semantic property the library is supposed to satisfy for EVERY input / history in the stated domain. The maintainers believe it holds on this tree (a number of violations were repaired recently - see `git log`). Your task is to act as an adversarial tester: find inputs, call sequences or files in the stated domain for which the CURRENT code VIOLATES the property. Read the anchored code carefully, look for unhandled corners (boundaries, unusual but documented argument combinations, interactions between features, ordering of calls, laziness/caching, state that survives save/reopen, documents loaded from tests/data vs newly created ones), write small experiments and run them.

Rules:
- Only count something as a violation if it contradicts the property AS STATED for inputs INSIDE the stated domain, using the public API (Document, Sheet, Table, Cell, the documented helper functions and the bundled command-line entry points). Behaviour the documentation (docs/, README.md, docstrings) explicitly defines otherwise is not a violation; say so if you are unsure.
- Be precise and minimal: for each distinct root cause give ONE minimal standalone reproduction script `{wt}/_hunt/<short-name>.py` that runs as `cd {wt} && PYTHONPATH={wt}/src /venv/bin/python _hunt/<short-name>.py`, prints what was expected and what was observed, and exits 1 when the violation is present (0 if not). Use tests/data/*.numbers as inputs where a loaded document is needed; write outputs under {wt}/_hunt/out/.
- Group findings by root cause (the place in the source that would have to change), not by input. Aim for up to 5 distinct root causes; quality over quantity. Spend your effort on finding REAL ones - it is perfectly acceptable to report that you found none after a serious search; do not pad the report with doubtful ones.
- Write `{wt}/_hunt/REPORT.md`: for each finding: name of the script, one-paragraph description (input, expected per the property, observed), the source location you believe is responsible, and your confidence that it is inside the property's stated domain. Also list briefly what you tried that held (so the search is documented).

ALREADY KNOWN - do not report these or variants of them (open, recorded findings of this property):
{chr(10).join("- " + f["what"] for f in known if f["property"] == pid and f["status"] == "open") or "- (none)"}
Repaired recently (see `git log --grep fix:` for the full list) - do not report what those commits fixed.
An earlier reviewer's claims that were judged OUTSIDE the property's stated domain or statement (do not repeat them):
{NOT_COUNTED}

If the Write tool refuses to create REPORT.md, put the full report in your final message instead (the repro scripts can be created with a shell heredoc). Report what you found at the end.
""")
    print(wt)
