#!/usr/bin/env python3
"""Sensitivity self-test: apply each committed mutant (mutants/<ID>-*.patch) and each kept seeded change
(seeded/<name>/patch.diff) to a scratch copy of /repo/src and run the property's quick check against it.
A mutant is 'caught' when the check exits 1 with a VIOLATION line.  Prints a table; exits 1 if any is missed."""
import json
import subprocess
import sys
from concurrent.futures import ThreadPoolExecutor
from pathlib import Path

V = Path(__file__).resolve().parent.parent


def run(item):
    patch, pid = item
    p = subprocess.run([str(V / "tools" / "trymut"), str(patch), pid], capture_output=True, text=True, errors="replace", env={**__import__("os").environ, "VERIF_JOBS": "8"})   # trymut cuts long lines, possibly inside a character
    out = p.stdout
    caught = "exit=1" in out and "VIOLATION" in out
    sigs = [ln.split("signature=")[1][:110] for ln in out.splitlines() if "signature=" in ln][:2]
    return patch, pid, caught, sigs, ("PATCH-FAILED" in out)


def main():
    only = set(sys.argv[1:])
    items = []
    for p in sorted((V / "mutants").glob("C*-*.patch")):
        pid = p.name.split("-")[0]
        if not only or pid in only:
            items.append((p, pid))
    for d in sorted((V / "seeded").glob("*/")):
        meta = d / "meta.json"
        if meta.exists() and (d / "patch.diff").exists():
            m = json.loads(meta.read_text())
            pid = m.get("check") or m["property"]   # "check": the property whose check catches it, when not the seeded one
            if not only or pid in only:
                items.append((d / "patch.diff", pid))
    with ThreadPoolExecutor(max_workers=4) as ex:
        results = list(ex.map(run, items))
    missed = 0
    for patch, pid, caught, sigs, pf in results:
        rel = patch.relative_to(V)
        status = "PATCH-FAILED" if pf else ("caught" if caught else "MISSED")
        if status != "caught":
            missed += 1
        print(f"{pid} {status:13s} {rel}  {sigs[0] if sigs else ''}")
    print(f"{len(results) - missed}/{len(results)} caught")
    return 1 if missed else 0


if __name__ == "__main__":
    sys.exit(main())
