#!/bin/sh
# tools/seedtests.sh <round>  - runs the repository's pinned test command (from /root/.vp/BASELINE.json, coverage off) inside every scratch
# worktree /tmp/seed<round>_CXX, where the sub-agent's change is applied, and compares the result with the baseline's stable_pass list.
# This is the "still passes the existing tests" confirmation made here rather than taken from the sub-agent's report.
rnd="$1"
ls -d /tmp/seed${rnd}_C* | xargs -P 16 -I{} sh -c 'cd {} && PYTHONPATH={}/src /venv/bin/python -m pytest -q -p no:cacheprovider --no-cov --timeout=900 --continue-on-collection-errors --junitxml={}.junit.xml >/dev/null 2>&1; echo "$(basename {}) $(python3 /verif/tools/baseline_check.py {}.junit.xml | head -3 | tr "\n" " ")"'
