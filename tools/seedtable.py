#!/usr/bin/env python3
"""Regenerates the table of seeded changes in DESIGN.md section 9 from seeded/*/meta.json."""
import json
import re
from pathlib import Path

V = Path(__file__).resolve().parent.parent
rows = ["| seeded change | property | what it needs to manifest | outcome of the quick check |", "| --- | --- | --- | --- |"]
for d in sorted((V / "seeded").glob("*/")):
    m = json.loads((d / "meta.json").read_text())
    needs = re.sub(r"\s+", " ", str(m.get("needs", ""))).replace("|", "/")[:300]
    vh = m.get("verified_here", {})
    rows.append(f"| `seeded/{d.name}` | {m['property']} | {needs} | {vh.get('quick_check', '?')} |")
table = "\n".join(rows)
p = V / "DESIGN.md"
s = p.read_text()
begin, end = "<!-- seeded-table-begin -->", "<!-- seeded-table-end -->"
block = f"{begin}\n{table}\n{end}"
if begin in s:
    s = s[: s.index(begin)] + block + s[s.index(end) + len(end):]
else:
    s = s.replace("SEEDED-TABLE", block)
p.write_text(s)
print(len(rows) - 2, "seeded changes listed")
