#!/usr/bin/env python3
"""Regenerates DESIGN.md section 5b (findings recorded after the first write-up of section 5) from known_findings.json:
every entry whose commit / id is not mentioned in section 5 proper.  Root cause = subject of the fix commit in /repo."""
import json
import re
import subprocess
from pathlib import Path

V = Path(__file__).resolve().parent.parent
s = (V / "DESIGN.md").read_text()
begin, end = "<!-- findings-table-begin -->", "<!-- findings-table-end -->"
head = s[: s.index(begin)] if begin in s else s
k = json.loads((V / "known_findings.json").read_text())["findings"]
rows = ["| property | what failed (minimal) | repair (commit subject) / why not repaired | outcome |", "| --- | --- | --- | --- |"]
n_fixed = n_open = 0
for f in k:
    key = f.get("commit") or f["id"]
    sec5 = head[head.index("## 5. "):] if "## 5. " in head else head
    if key in sec5:
        continue
    what = re.sub(r"\s+", " ", f["what"]).replace("|", "/")
    if f["status"] == "fixed":
        subj = subprocess.run(["git", "-C", "/repo", "log", "-1", "--format=%s", f["commit"]], capture_output=True, text=True).stdout.strip()
        rows.append(f"| {f['property']} | {what} | {subj.replace('fix: ', '')} | fix {f['commit']} |")
        n_fixed += 1
    else:
        rows.append(f"| {f['property']} | {what} | not repaired (see the entry's text) | **open finding** `{f['id']}`; matcher: signature prefix `{f['signature'][1]}` |")
        n_open += 1
block = f"{begin}\n" + "\n".join(rows) + f"\n{end}"
if begin in s:
    s = s[: s.index(begin)] + block + s[s.index(end) + len(end):]
else:
    raise SystemExit("markers missing in DESIGN.md")
(V / "DESIGN.md").write_text(s)
print(n_fixed, "fixed and", n_open, "open entries listed in 5b")
