"""C20  CSV import followed by CSV export reproduces the cell grid."""
import csv
import io
import math
import re
import shutil
import sys
import tempfile
import warnings
from pathlib import Path
from unittest import mock

from hypothesis import strategies as st

from vf.core import derive_seed, run_given

ID = "C20"
RULE = (
    "Rectangular grids 1..40 x 1..12 written with Python's csv module (the reference for well-formed CSV); cells drawn from "
    "arbitrary Unicode text (delimiters, quotes, CR, LF, CRLF, leading/trailing blanks), numeric spellings with <=15 "
    "significant digits (ints, decimals, thousands commas, exponents, signs, underscores, non-ASCII digits, padded), "
    "special-float spellings (nan, inf, -Infinity, 1e400, case variants) and empties; header row with unique non-empty labels "
    "(duplicate/empty labels in a separate lane); options --no-header, --whitespace, --reverse. Converted with csv2numbers "
    "main() in-process, exported with cat-numbers -b main() in-process, parsed back with csv. Oracle: exit 0, or non-zero with "
    "exactly one line on stderr and no traceback; on success same shape; a cell is numeric iff float() accepts it after "
    "removing commas and the result is finite - then float(exported) == that float; every other cell identical character for "
    "character (after the documented --whitespace normalisation / --reverse order). Non-trivial: grid contains a quoted "
    "delimiter/line break, a special-float spelling or a numeric spelling other than plain digits; distinct by (grid, options)."
)
ASSUMPTIONS = [
    "well-formed CSV = what Python's csv.writer emits (excel dialect) for the generated grid",
    "numeric spellings carry <= 15 significant digits (documented rounding otherwise)",
    "with --whitespace a header cell may come back normalised or verbatim (the option's text does not say)",
]


class _Dialect(csv.excel):
    """private copy: the converter sets csv.excel.strict = True on the shared stdlib class"""
    strict = False


def write_csv(path, grid):
    with open(path, "w", encoding="utf-8", newline="") as fh:
        csv.writer(fh, dialect=_Dialect).writerows(grid)


def parse_csv(text):
    return list(csv.reader(io.StringIO(text, newline=""), dialect=_Dialect))


GROUPED = re.compile(r"\s*[+-]?\d{1,3}(,\d{3})+(\.\d*)?([eE][+-]?\d+)?\s*")


def classify(s):
    """-> ('num', float) | ('text', s).  A cell is a number when float() reads it, commas being allowed only as thousands separators
    (groups of three digits after the first group): '1,234.5' is a number, '1,2,3', '12,5' and ',5' are text."""
    if "," in s and not GROUPED.fullmatch(s):
        return ("text", s)
    try:
        f = float(s.replace(",", ""))
    except ValueError:
        return ("text", s)
    if math.isfinite(f):
        return ("num", f)
    return ("text", s)


def run_cli(module_main, module, argv):
    """Run a CLI main() in-process; -> (status, stdout, stderr, exception or None)"""
    out, err = io.StringIO(newline=""), io.StringIO()
    status, exc = 0, None

    def fake_exit(code=0):
        raise SystemExit(code)

    patches = [mock.patch.object(sys, "argv", argv), mock.patch.object(sys, "stdout", out), mock.patch.object(sys, "stderr", err)]
    if hasattr(module, "stderr"):
        patches.append(mock.patch.object(module, "stderr", err))
    if hasattr(module, "exit"):
        patches.append(mock.patch.object(module, "exit", fake_exit))
    for p in patches:
        p.start()
    try:
        with warnings.catch_warnings():
            warnings.simplefilter("ignore")
            module_main()
    except SystemExit as e:
        status = e.code if isinstance(e.code, int) else (0 if e.code is None else 1)
    except Exception as e:  # a propagated exception = crash
        exc = e
    finally:
        for p in reversed(patches):
            p.stop()
    return status, out.getvalue(), err.getvalue(), exc


def check_grid(ctx, case):
    from numbers_parser import _cat_numbers, _csv2numbers

    grid = case["grid"]
    opts = case["opts"]
    tmp = Path(tempfile.mkdtemp(prefix="vf_c20_"))
    try:
        src, dst = tmp / "in.csv", tmp / "out.numbers"
        write_csv(src, grid)
        argv = ["csv2numbers", str(src), "-o", str(dst)]
        for o in ("no-header", "whitespace", "reverse"):
            if opts.get(o):
                argv.insert(1, "--" + o)
        ctx.ev()
        status, _out, err, exc = run_cli(_csv2numbers.main, _csv2numbers, argv)
        if exc is not None:
            from vf.core import innermost_lib_frame

            kinds = sorted({classify_kind(c) for row in grid for c in row} - {"plain"})
            ctx.fail(("C20", "converter_crashed", type(exc).__name__, innermost_lib_frame(exc)), {**case, "cell_kinds": kinds},
                     f"csv2numbers raised {type(exc).__name__}: {str(exc)[:150]}")
            return
        if status != 0:
            lines = [ln for ln in err.splitlines() if ln.strip()]
            if len(lines) != 1 or "Traceback" in err:
                ctx.fail(("C20", "error_report_format"), case, f"exit {status} with stderr {err[:300]!r} (expected exactly one line)")
            ctx.count("converter_reported_error")
            return
        ctx.count("converted")
        status2, out2, err2, exc2 = run_cli(_cat_numbers.main, _cat_numbers, ["cat-numbers", "-b", str(dst)])
        if exc2 is not None or status2 != 0:
            ctx.fail(("C20", "export_failed", type(exc2).__name__ if exc2 else f"status{status2}"), case,
                     f"cat-numbers -b failed on the converted document: {exc2!r} {err2[:200]!r}")
            return
        back = parse_csv(out2)
        # expected grid
        if opts.get("no-header"):
            header, data = None, [list(r) for r in grid]
        else:
            header, data = list(grid[0]), [list(r) for r in grid[1:]]
        if opts.get("reverse"):
            data = list(reversed(data))
        if opts.get("whitespace"):
            data = [[re.sub(r"\s+", " ", c.strip()) for c in row] for row in data]
        want = ([header] if header is not None else []) + data
        # the converter starts from a 2x2 table, so a grid narrower or shorter than 2 comes back padded with empty
        # cells: compared against the padded grid, then reported as the (known) finding padded_2x2
        padded = False
        if want and (len(want[0]) < 2 or len(want) < 2) and (len(back) != len(want) or len(back[0]) != len(want[0])):
            padded = True
            if len(want[0]) < 2:
                want = [r + [""] * (2 - len(r)) for r in want]
            while len(want) < 2:
                want.append([""] * len(want[0]))
        flags = case_flags(grid)
        dup = ("dup_header",) if (flags["dup_header"] and not opts.get("no-header")) else ()
        if len(back) != len(want) or any(len(a) != len(b) for a, b in zip(back, want)):
            ctx.fail(("C20",) + dup + ("shape",), {**case, **flags},
                     f"exported grid is {len(back)}x{[len(r) for r in back][:3]}, expected {len(want)}x{len(want[0]) if want else 0}")
            return
        for r, (brow, wrow) in enumerate(zip(back, want)):
            for c, (b, w) in enumerate(zip(brow, wrow)):
                ctx.ev()
                is_header = header is not None and r == 0
                kind, val = ("text", w) if is_header else classify(w)
                if kind == "num":
                    try:
                        ok = float(b) == val
                    except ValueError:
                        ok = False
                    if not ok:
                        ctx.fail(("C20",) + dup + ("number_changed",), {**case, "cell": [r, c]}, f"cell ({r},{c}) {w!r} (= {val!r}) exported as {b!r}")
                else:
                    if b != w:
                        if is_header and opts.get("whitespace") and b == re.sub(r"\s+", " ", w.strip()):
                            continue
                        what = "cr" if ("\r" in w) else "special_float" if classify_kind(w) == "special" else "other"
                        ctx.fail(("C20",) + dup + ("text_changed", what), {**case, "cell": [r, c]}, f"cell ({r},{c}) {w!r} exported as {b!r}")
        if padded:
            ctx.fail(("C20",) + dup + ("padded_2x2",), {**case, **flags},
                     f"a {len(grid)}x{len(grid[0])} grid is exported as {len(back)}x{len(back[0])}: padded with empty cells to the converter's 2x2 minimum")
        if flags["nontrivial"]:
            ctx.nt([grid, sorted(k for k, v in opts.items() if v)])
        for k in ("quoted", "special", "numeric_fancy", "dup_header", "cr"):
            if flags[k]:
                ctx.count("grid_with_" + k)
        for o, v in opts.items():
            if v:
                ctx.count("opt_" + o)
        ctx.sample({"grid": [r[:4] for r in grid[:3]], "shape": [len(grid), len(grid[0])], "opts": opts}, every=41)
    finally:
        shutil.rmtree(tmp, ignore_errors=True)


SPECIALS = ["nan", "NaN", "NAN", "inf", "Inf", "INF", "-inf", "+inf", "infinity", "-Infinity", "Infinity", "1e400", "-1e999", "+nan", " nan ", "1E400"]


def classify_kind(s):
    k, _ = classify(s)
    t = s.strip().lower().lstrip("+-")
    if k == "text" and (t in ("nan", "inf", "infinity") or re.fullmatch(r"\d+(\.\d+)?e\+?\d{3,}", t or "x")):
        return "special"
    if k == "num":
        return "plain" if re.fullmatch(r"[0-9]+", s) else "numeric_fancy"
    if any(ch in s for ch in ',"\r\n'):
        return "quoted"
    return "plain"


def case_flags(grid):
    kinds = {classify_kind(c) for row in grid for c in row}
    header = grid[0]
    return {
        "quoted": "quoted" in kinds, "special": "special" in kinds, "numeric_fancy": "numeric_fancy" in kinds,
        "cr": any("\r" in c for row in grid for c in row),
        "dup_header": len(set(header)) != len(header),
        "nontrivial": bool(kinds & {"quoted", "special", "numeric_fancy"}),
    }


# ------------------------------------------------------------------------------------------
# generators

digits15 = st.integers(1, 15).flatmap(lambda k: st.integers(10 ** (k - 1), 10**k - 1))


@st.composite
def numeric_spelling(draw):
    n = draw(digits15)
    style = draw(st.sampled_from(["int", "dec", "commas", "exp", "sign", "underscore", "arabic", "padded", "zero_frac", "lead_dot"]))
    s = str(n)
    if style == "int":
        return s
    if style == "dec":
        p = draw(st.integers(0, len(s)))
        return (s[:p] or "0") + "." + s[p:] if p < len(s) else s + ".0"
    if style == "commas":
        return f"{n:,}"
    if style == "exp":
        return f"{s[0]}.{s[1:] or '0'}{draw(st.sampled_from(['e', 'E']))}{draw(st.integers(-20, 20) | st.integers(-300, 290))}"
    if style == "sign":
        return draw(st.sampled_from(["+", "-"])) + s
    if style == "underscore":
        return "_".join([s[i:i + 3] for i in range(0, len(s), 3)]) if len(s) > 3 else s
    if style == "arabic":
        return "".join(chr(0x0660 + int(ch)) for ch in s)
    if style == "padded":
        return draw(st.sampled_from([" ", "  ", "\t"])) + s + draw(st.sampled_from([" ", "", "\n"]))
    if style == "zero_frac":
        return (s[:13] if len(s) > 13 else s) + ".50"
    return "." + s


free_text = st.text(max_size=12) | st.sampled_from(["a,b", 'say "hi"', "line1\nline2", "cr\rhere", "crlf\r\nhere", " lead", "trail ", "tab\tx", "é😀", "'", '"', ",", "\n", "\r",
                                                    "=1+2", "TRUE", "1/2", "12abc", "0x10", "1,2,x", "$5", "5%", "--5", "1e", "e5", "١٢x", "1,2,3", "12,5", "7,", ",5", "1,,2", "1e,5", "1,00", "12,34,567", "1,2345"])
cells = st.one_of(free_text, free_text, numeric_spelling(), numeric_spelling(), st.sampled_from(SPECIALS), st.just(""), st.integers(0, 9999).map(str))


@st.composite
def grids(draw, max_rows=40, max_cols=12, header="unique"):
    ncols = draw(st.integers(1, max_cols))
    nrows = draw(st.integers(1, max_rows) | st.integers(1, 6))
    grid = [[draw(cells) for _ in range(ncols)] for _ in range(nrows)]
    if header == "unique":
        seen = set()
        for i, label in enumerate(grid[0]):
            if label == "" or label in seen:
                label = f"{label}#{i}" if label else f"col{i}"
                while label in seen:
                    label += "'"
            seen.add(label)
            grid[0][i] = label
    elif header == "dups" and ncols >= 2:
        j = draw(st.integers(1, ncols - 1))
        grid[0][j] = grid[0][draw(st.integers(0, j - 1))] if draw(st.booleans()) else ""
        if draw(st.booleans()):
            grid[0][0] = grid[0][j]
    return grid


options = st.fixed_dictionaries({"no-header": st.booleans(), "whitespace": st.booleans(), "reverse": st.booleans()}) | st.just({"no-header": False, "whitespace": False, "reverse": False})


def tasks(tier, seed):
    t = []
    for k in range(16):
        t.append(("grids", {"n": 14 if tier == "quick" else 340, "seed": derive_seed(seed, "c20", k), "header": "unique"}))
    for k in range(2 if tier == "quick" else 8):
        t.append(("grids", {"n": 8 if tier == "quick" else 70, "seed": derive_seed(seed, "c20d", k), "header": "dups"}))
    t.append(("specials", {}))
    return t


def run_task(ctx, lane, **kw):
    if lane == "grids":
        def body(c):
            grid, opts = c
            check_grid(ctx, {"lane": "grid", "grid": grid, "opts": opts})

        run_given(ctx, st.tuples(grids(header=kw["header"]), options), body, kw["n"], kw["seed"], reduce=("grid", 30.0, reduce_check))
    elif lane == "specials":
        # every special-float spelling, alone in a data cell, with and without a header
        for s in SPECIALS + ["12", "50", "0.12", "1,234.5", "cr\rhere", "crlf\r\nx", 'q"q', "a,b"]:
            for nh in (False, True):
                check_grid(ctx, {"lane": "grid", "grid": [["h1", "h2"], [s, "x"], ["y", s]], "opts": {"no-header": nh, "whitespace": False, "reverse": False}})
                ctx.nt_enum(1)
    else:
        raise ValueError(lane)


def reduce_check(ctx, case):
    if not case["grid"] or not case["grid"][0]:
        return
    check_grid(ctx, case)


def check_case(ctx, case):
    case = {k: v for k, v in case.items() if k in ("lane", "grid", "opts")}
    check_grid(ctx, case)
