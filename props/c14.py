"""C14  Displayed dates and durations agree with the stored value."""
import shutil
import tempfile
import warnings
from datetime import datetime, timedelta
from pathlib import Path

from hypothesis import strategies as st

from vf import dtfmt
from vf.core import derive_seed, run_given

ID = "C14"
RULE = (
    "Dates: for every directive of the documented table, exhaustive over the field it depends on - 24 hours x {minute 0,59}; 60 "
    "minutes; 60 seconds; all 366 days of 2024 and 365 of 2023 (month, day, day-of-year, weekday, week-of-month/year, nth weekday); "
    "years {1, 99, 100, 999, 1000, 1900, 1999, 2000, 2001, 2038, 2100, 9999}; sub-seconds {0,1,9,10,99,100000,123456,999999} us; one "
    "directive per column through set_cell_formatting(..., 'datetime'), read after save+reopen. Compositions: Hypothesis lists of "
    "directives separated by literals (punctuation, digits, non-ASCII letters), and quoted text incl. '' both via add_custom_format(type='datetime') and via the validated public route; every composition is read on the open document and after reload. Durations: all 21 "
    "(largest, smallest) unit pairs x 3 styles x explicit/automatic units (126 format records) on values 0..10 years at millisecond "
    "resolution concentrated on unit boundaries +-1 ms. Oracle: documented meaning per directive as calendar arithmetic (vf/dtfmt.py; "
    "where documentation and Numbers-authored workbooks disagree the documented set is accepted), concatenation for compositions; a "
    "displayed duration read back unit by unit == the duration truncated to the smallest unit shown, units named as selected. "
    "Non-trivial: hour not in {0,12} / value crossing a unit boundary / >= 2 units / composition with >= 2 parts; distinct by (directive "
    "or format, value)."
)
ASSUMPTIONS = [
    "English month/weekday names; naive datetimes",
    "accepted sets: 'y' full year or year%100 unpadded; 'W' Monday- or Sunday-based; 'yyyy' padded or not for years < 1000; 'ww' padded or not",
    "duration formats are installed as format-list records (no public API for duration formats); observation is Cell.formatted_value after reload",
    "compact style with automatic units does not name its units: some contiguous unit range with as many units as the text has fields must read back",
]
EXHAUSTIVE = {"quick": False, "thorough": False}
EXHAUSTIVE_NOTE = "every directive x every value of its field (hours, minutes, seconds, all days of 2023 and 2024, listed years and sub-seconds)"


def field_values(field):
    if field == "hour":
        return [datetime(2024, 3, 5, h, m, 7) for h in range(24) for m in (0, 59)]
    if field == "minute":
        return [datetime(2024, 3, 5, 13, m, 7) for m in range(60)]
    if field == "second":
        return [datetime(2024, 3, 5, 13, 7, s) for s in range(60)]
    if field == "day":
        out = []
        for y in (2023, 2024):
            d = datetime(y, 1, 1, 9, 30)
            while d.year == y:
                out.append(d)
                d += timedelta(days=1)
        return out
    if field == "year":
        return [datetime(y, 6, 15, 12, 0, 0) for y in (1, 99, 100, 999, 1000, 1900, 1999, 2000, 2001, 2038, 2100, 9999)]
    if field == "subsecond":
        return [datetime(2024, 3, 5, 13, 7, 9, us) for us in (0, 1, 9, 10, 99, 100_000, 123_456, 999_999)]
    raise ValueError(field)


def render_dates(ctx, case, rows, formats, custom=False):
    """rows: list of datetimes; formats: list of format strings (one per column). -> grid of texts (after reload) or None"""
    from numbers_parser import Document

    tmp = Path(tempfile.mkdtemp(prefix="vf_c14_"))
    try:
        def build():
            doc = Document(num_rows=max(2, len(rows)), num_cols=max(2, len(formats)), num_header_rows=0, num_header_cols=0)
            t = doc.sheets[0].tables[0]
            with warnings.catch_warnings():
                warnings.simplefilter("ignore")
                cfs = None
                if custom:
                    cfs = [doc.add_custom_format(name=f"cf{j}", type="datetime", format=f) for j, f in enumerate(formats)]
                for i, dt in enumerate(rows):
                    for j, f in enumerate(formats):
                        t.write(i, j, dt)
                        if custom:
                            t.set_cell_formatting(i, j, "custom", format=cfs[j])
                        else:
                            t.set_cell_formatting(i, j, "datetime", date_time_format=f)
                doc.save(tmp / "d.numbers")
                return Document(tmp / "d.numbers")

        d2 = ctx.guard(("C14", "date_build"), case, build)
        if d2 is None:
            return None
        t2 = d2.sheets[0].tables[0]
        out = []
        for i in range(len(rows)):
            line = []
            for j in range(len(formats)):
                line.append(ctx.guard(("C14", "date_formatted_value_raised"), {**case, "row": i, "col": j}, lambda: t2.cell(i, j).formatted_value))
            out.append(line)
        return out
    finally:
        shutil.rmtree(tmp, ignore_errors=True)


def dtj(dt):
    return [dt.year, dt.month, dt.day, dt.hour, dt.minute, dt.second, dt.microsecond]


def check_field(ctx, field, directives=None):
    rows = field_values(field)
    directives = directives or dtfmt.FIELD_OF[field]
    case = {"lane": "field", "field": field}
    grid = render_dates(ctx, case, rows, directives)
    if grid is None:
        return
    for i, dt in enumerate(rows):
        for j, d in enumerate(directives):
            ctx.ev()
            got = grid[i][j]
            want = dtfmt.expected(d, dt)
            if got not in want:
                ctx.fail(("C14", "directive", d), {"lane": "directive", "directive": d, "dt": dtj(dt)},
                         f"directive {d!r} on {dt.isoformat()} renders {got!r}, documented meaning gives {sorted(want)}")
            ctx.nt_enum(1 if not (field == "hour" and dt.hour in (0, 12)) else 0)
    ctx.sample({"field": field, "directives": directives, "first": [rows[0].isoformat(), grid[0]], "last": [rows[-1].isoformat(), grid[-1]]})


LITERALS = ["-", "/", ":", ", ", " ", ".", " @ ", "  ", "(", ")", "#", "1", "2024", "+", "_", "!", "%", ";", "=", "&", "~", "|",
            "年", "月", "日", " à ", "時", "é", " г. "]
QUOTED = ["at", "o'clock", "h", "Day", "yyyy", " of ", "T", "Z", "a", "it''s", "week", "d.M.", "x'y'z"]


@st.composite
def compositions(draw, quoted):
    n = draw(st.integers(1, 6))
    parts = []  # ("d", directive) | ("l", literal) | ("q", text)
    if draw(st.booleans()):
        parts.append(("l", draw(st.sampled_from(LITERALS))))
    for k in range(n):
        parts.append(("d", draw(st.sampled_from(dtfmt.DIRECTIVES))))
        if k < n - 1 or draw(st.booleans()):
            if quoted and draw(st.integers(0, 9)) == 0:
                parts.append(("x", "'"))  # '' outside quotes: one literal quote
            elif quoted and draw(st.integers(0, 2)) == 0:
                q = draw(st.sampled_from(QUOTED) | st.text(alphabet="abcXYZ '", min_size=1, max_size=5))
                # a quote at either end of a quoted run is ambiguous in the pattern language itself ('' is an escaped
                # quote both inside and outside quotes), so quotes are generated in the interior only
                q = q.strip("'") or "q"
                parts.append(("q", q))
            else:
                parts.append(("l", draw(st.sampled_from(LITERALS))))
    dt = draw(st.datetimes(min_value=datetime(1900, 1, 1), max_value=datetime(2100, 12, 31)))
    return [list(p) for p in parts], dtj(dt)


def format_string(parts):
    out = ""
    for kind, text in parts:
        if kind == "x":
            out += "''"
        elif kind == "q":
            out += "'" + text.replace("'", "''") + "'"
        else:
            out += text
    return out


def check_compositions(ctx, items, quoted):
    """items: list of (parts, dtj). One document, one row per item (each with its own format column 0)."""
    from numbers_parser import Document

    tmp = Path(tempfile.mkdtemp(prefix="vf_c14c_"))
    case = {"lane": "compositions", "items": items, "quoted": quoted}
    try:
        def build():
            doc = Document(num_rows=max(2, len(items)), num_cols=2, num_header_rows=0, num_header_cols=0)
            t = doc.sheets[0].tables[0]
            with warnings.catch_warnings():
                warnings.simplefilter("ignore")
                for i, (parts, dj) in enumerate(items):
                    f = format_string(parts)
                    t.write(i, 0, datetime(*dj))
                    if quoted == "custom" or quoted is True:
                        if i == len(items) // 2:
                            _ = t.cell(0, 0).formatted_value   # a display between two batches of custom formats
                        cf = doc.add_custom_format(name=f"c{i}", type="datetime", format=f)
                        t.set_cell_formatting(i, 0, "custom", format=cf)
                    else:  # the public route, with its validation of the directives (quoted text included when quoted == "public")
                        t.set_cell_formatting(i, 0, "datetime", date_time_format=f)
                open_texts = [t.cell(i, 0).formatted_value for i in range(len(items))]
                doc.save(tmp / "c.numbers")
                return Document(tmp / "c.numbers"), open_texts

        res = ctx.guard(("C14", "composition_build", str(quoted)), case, build)
        if res is None:
            return
        d2, open_texts = res
        t2 = d2.sheets[0].tables[0]
        for i, (parts, dj) in enumerate(items):
            ctx.ev()
            dt = datetime(*dj)
            sub = {"lane": "compositions", "items": [items[i]], "quoted": quoted}
            got = ctx.guard(("C14", "composition_formatted_value_raised"), sub, lambda: t2.cell(i, 0).formatted_value)
            if got is None:
                continue
            # the text must be a concatenation of: literal/quoted text unchanged, each directive one of its accepted renderings
            for where, text in (("reloaded", got), ("open", open_texts[i])):
                if not matches(text, parts, dt):
                    want = "".join(t_ if k != "d" else "{" + "|".join(sorted(dtfmt.expected(t_, dt))) + "}" for k, t_ in parts)
                    ctx.fail(("C14", "composition", "quoted" if quoted else "plain", where), sub,
                             f"format {format_string(parts)!r} on {dt.isoformat()} renders {text!r} on the {where} document, expected the concatenation {want!r}")
            if len(parts) >= 2:
                ctx.nt((format_string(parts), dj))
        ctx.sample({"format": format_string(items[0][0]), "dt": items[0][1]}, every=3)
    finally:
        shutil.rmtree(tmp, ignore_errors=True)


def matches(text, parts, dt, pos=0, k=0):
    if k == len(parts):
        return pos == len(text)
    kind, body = parts[k]
    options = dtfmt.expected(body, dt) if kind == "d" else {body}
    for o in options:
        if text.startswith(o, pos) and matches(text, parts, dt, pos + len(o), k + 1):
            return True
    return False


# ------------------------------------------------------------------------------------------
# durations

def duration_formats():
    out = []
    for style in (0, 1, 2):
        for i, lg in enumerate(dtfmt.ORDER):
            for sm in dtfmt.ORDER[i:]:
                for auto in (False, True):
                    out.append((style, lg, sm, auto))
    return out


def check_durations(ctx, values_ms, formats=None):
    from numbers_parser import Document
    from numbers_parser.generated import TSKArchives_pb2 as TSK

    formats = formats or duration_formats()
    case = {"lane": "durations", "values_ms": values_ms, "formats": [list(f) for f in formats]}
    tmp = Path(tempfile.mkdtemp(prefix="vf_c14d_"))
    try:
        def build():
            doc = Document(num_rows=max(2, len(values_ms)), num_cols=max(2, len(formats)), num_header_rows=0, num_header_cols=0)
            t = doc.sheets[0].tables[0]
            model, tid = doc._model, t._table_id
            ids = []
            for style, lg, sm, auto in formats:
                arch = TSK.FormatStructArchive(format_type=268, duration_style=style, duration_unit_largest=dtfmt.ENUM[lg],
                                               duration_unit_smallest=dtfmt.ENUM[sm], use_automatic_duration_units=auto)
                ids.append(model._table_formats.lookup_key(tid, arch))
            with warnings.catch_warnings():
                warnings.simplefilter("ignore")
                for i, ms in enumerate(values_ms):
                    for j in range(len(formats)):
                        t.write(i, j, timedelta(milliseconds=ms))
                        t.cell(i, j)._duration_format_id = ids[j]
                doc.save(tmp / "u.numbers")
                return Document(tmp / "u.numbers")

        d2 = ctx.guard(("C14", "duration_build"), case, build)
        if d2 is None:
            return
        t2 = d2.sheets[0].tables[0]
        for i, ms in enumerate(values_ms):
            for j, (style, lg, sm, auto) in enumerate(formats):
                ctx.ev()
                sub = {"lane": "durations", "values_ms": [ms], "formats": [[style, lg, sm, auto]]}
                text = ctx.guard(("C14", "duration_formatted_value_raised"), sub, lambda: t2.cell(i, j).formatted_value)
                if text is None:
                    continue
                try:
                    dtfmt.check_duration(text, ms, style, lg, sm, auto)
                except dtfmt.BadDuration as b:
                    ctx.fail(("C14", "duration", b.kind, ["compact", "short", "long"][style], "auto" if auto else "explicit"), sub,
                             f"{ms} ms under style {style} units {lg}..{sm} automatic={auto}: {b}")
                if lg != sm or ms % 1000:
                    ctx.nt((ms, style, lg, sm, auto))
                ctx.count("duration_zero" if ms == 0 else "duration_nonzero")
                ctx.count("duration_style_%d" % style)
        ctx.sample({"value_ms": values_ms[0], "format": list(formats[5]), "text": t2.cell(0, 5).formatted_value if len(formats) > 5 else None})
    finally:
        shutil.rmtree(tmp, ignore_errors=True)


TEN_YEARS_MS = 10 * 366 * 86_400_000
boundary_ms = st.sampled_from(list(dtfmt.UNIT_MS.values())).flatmap(
    lambda u: st.tuples(st.integers(0, 60), st.sampled_from([-1, 0, 1, 999, 500])).map(lambda t: max(0, t[0] * u + t[1])))
duration_values = st.one_of(boundary_ms, boundary_ms, st.integers(0, TEN_YEARS_MS), st.integers(0, 3_600_000), st.sampled_from([0, 1, 999, 1000, 59_999, 60_000, 3_599_999, 86_399_999, 604_799_999, 604_800_000, TEN_YEARS_MS]),
                            st.tuples(st.integers(0, 520), st.integers(0, 6), st.integers(0, 23), st.integers(0, 59), st.integers(0, 59), st.integers(0, 999)).map(
                                lambda t: ((((t[0] * 7 + t[1]) * 24 + t[2]) * 60 + t[3]) * 60 + t[4]) * 1000 + t[5]))


def tasks(tier, seed):
    t = [("field", {"field": f}) for f in ("hour", "minute", "second", "year", "subsecond")]
    t += [("field_day", {"part": p}) for p in range(4)]
    for k in range(8 if tier == "quick" else 16):
        t.append(("compositions", {"n": 300 if tier == "quick" else 1500, "quoted": [False, "custom", False, "public"][k % 4], "seed": derive_seed(seed, "c14c", k)}))
    for k in range(16 if tier == "quick" else 64):
        t.append(("durations", {"n": 60 if tier == "quick" else 160, "seed": derive_seed(seed, "c14d", k)}))
    return t


def run_task(ctx, lane, **kw):
    if lane == "field":
        check_field(ctx, kw["field"])
    elif lane == "field_day":
        ds = dtfmt.FIELD_OF["day"]
        part = [ds[i] for i in range(len(ds)) if i % 4 == kw["part"]]
        check_field(ctx, "day", part)
    elif lane == "compositions":
        def body(items):
            check_compositions(ctx, [list(x) for x in items], kw["quoted"])

        from hypothesis import Phase

        m = max(5, kw["n"] // 5)
        run_given(ctx, st.lists(compositions(kw["quoted"]), min_size=m, max_size=m), body, 6, kw["seed"], phases=(Phase.explicit, Phase.generate))
    elif lane == "durations":
        def body(vals):
            check_durations(ctx, vals)

        from hypothesis import Phase

        m = max(4, kw["n"] // 4)
        run_given(ctx, st.lists(duration_values, min_size=m, max_size=m), body, 5, kw["seed"], phases=(Phase.explicit, Phase.generate))
    else:
        raise ValueError(lane)


def check_case(ctx, case):
    lane = case["lane"]
    if lane == "directive":
        dt = datetime(*case["dt"])
        d = case["directive"]
        grid = render_dates(ctx, case, [dt], [d])
        if grid is not None:
            got = grid[0][0]
            if got not in dtfmt.expected(d, dt):
                ctx.fail(("C14", "directive", d), case, f"directive {d!r} on {dt.isoformat()} renders {got!r}, documented {sorted(dtfmt.expected(d, dt))}")
    elif lane == "field":
        check_field(ctx, case["field"])
    elif lane == "compositions":
        check_compositions(ctx, case["items"], case["quoted"])
    elif lane == "durations":
        check_durations(ctx, case["values_ms"], [tuple(f) for f in case["formats"]])
    else:
        raise ValueError(lane)
