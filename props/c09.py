"""C09  References in formulas name exactly the stored target cells and table."""
import shutil
import tempfile
import warnings
from pathlib import Path

from hypothesis import strategies as st

from vf import refresolve as rr
from vf.core import derive_seed, run_given

ID = "C09"
RULE = (
    "Documents built through the API with 1..3 sheets x 1..3 tables (plus one table of 720 columns, for references around the column names Z/AA and ZZ/AAA); table names unique / duplicated across sheets / shared with "
    "the host sheet; header rows/columns 0..2; header labels absent / unique / duplicated within table, sheet or document (labels "
    "with spaces and operator characters, which force quoting). Stored reference nodes, encoded the way Numbers-authored fixtures "
    "encode them: single cell, rectangle (colon tract, both single-value and begin/end-pair relative lists), row span, column span, "
    "whole single row/column, all absolute/relative combinations, one stored formula in three shared by a second host cell of its table and read there too (an axis with one fixed and one relative end is stored end-before-begin in one case of three, as a range filled upwards is), to the host table and to every other table (cross-table info "
    "carries the target's UUID read from the document). Hosts: body cells. Oracle: an independent resolver (vf/refresolve.py) "
    "parses the printed `[Sheet::][Table::]ref`, determines the candidate tables from the document's names only and must find "
    "exactly one reading, identical to the stored target: same table, same coordinates (relative = host + offset), '$' exactly on "
    "the absolute components, range ends not swapped; a printed label must name exactly the stored row/column. The check is "
    "repeated after a header label is rewritten , after a table is renamed, after a sheet is renamed, after a header count is set to zero and after a row/column is inserted (formulas whose host cell moved are left out) and after two label cells are merged (cache invalidation); one table in six has two label cells merged from the start. Non-trivial: reference to another table, or a label, or a "
    "mixed absolute/relative range; distinct by (configuration, reference)."
)
ASSUMPTIONS = [
    "a bare table name resolves in the host sheet first, then document-wide; over-qualification is not a violation",
    "labels are text that cannot be mistaken for A1 notation, contain no '::' and row labels are disjoint from "
    "column labels within a table in three tables out of four; a label shared by a row and a column of one table is taken to name neither (it has two readings)",
    "reference nodes are installed through the table's formula list; the observation is Cell.formula",
]

LABELS = ["alpha", "beta", "gamma", "x y", "p+q", "10% off", "a-b", "total", "Q1 2024", "näme", "m&m", "f(x)", "size^2", "a*b", "", "delta", "é", "it's", "say \"hi\"",
          "item #1", "fruit:meat", "x;y"]
TABLE_NAMES = ["Table 1", "Data", "T", "Sales 2024", "Bob's", "P&L", "Costs, 2023", "1+Tax", "a:b"]
SHEET_NAMES = ["Sheet 1", "Sheet 2", "Summary"]


@st.composite
def configs(draw):
    nsheets = draw(st.integers(1, 3))
    sheets = []
    for si in range(nsheets):
        ntab = draw(st.integers(1, 3 if nsheets < 3 else 2))
        names = draw(st.lists(st.sampled_from(TABLE_NAMES), min_size=ntab, max_size=ntab, unique=True))
        tables = []
        for name in names:
            rows, cols = draw(st.integers(3, 6)), draw(st.integers(3, 5))
            hr, hc = draw(st.integers(0, 2)), draw(st.integers(0, 2))
            style = draw(st.sampled_from(["unique", "dups", "mixed", "shared"]))
            pool = LABELS if style != "shared" else LABELS[:4]
            col_labels, row_labels = {}, {}
            if hr:
                for c in range(hc, cols):
                    col_labels[c] = draw(st.sampled_from(pool))
            if hc:
                for r in range(hr, rows):
                    row_labels[r] = draw(st.sampled_from(pool))
            if style == "unique":
                col_labels = {c: f"{lab or 'c'} {c}" for c, lab in col_labels.items()}
                row_labels = {r: f"{lab or 'r'} row{r}" for r, lab in row_labels.items()}
            # one table in four keeps labels shared between its row and its column headers: such a label names neither
            # a row nor a column unambiguously, so a reference printed with it would have two readings
            if draw(st.integers(0, 3)) != 0:
                for r, lab in list(row_labels.items()):
                    if lab and lab in col_labels.values():
                        row_labels[r] = lab + " r"
            tc = {"name": name, "rows": rows, "cols": cols, "hr": hr, "hc": hc,
                  "col_labels": {str(k): v for k, v in col_labels.items()}, "row_labels": {str(k): v for k, v in row_labels.items()}}
            if hr and cols - hc >= 2 and draw(st.integers(0, 5)) == 0:
                # two neighbouring cells of the label row merged: the hidden one has no value and names nothing
                c0 = draw(st.integers(hc, cols - 2))
                tc["header_merge"] = [hr - 1, c0, c0 + 1]
                tc["col_labels"][str(c0 + 1)] = ""
            tables.append(tc)
        sheets.append({"name": SHEET_NAMES[si], "tables": tables})
    return {"sheets": sheets}


def build(config):
    from numbers_parser import Document

    s0 = config["sheets"][0]
    t0 = s0["tables"][0]
    doc = Document(sheet_name=s0["name"], table_name=t0["name"], num_rows=t0["rows"], num_cols=t0["cols"], num_header_rows=t0["hr"], num_header_cols=t0["hc"])
    for si, sh in enumerate(config["sheets"]):
        if si > 0:
            ft = sh["tables"][0]
            doc.add_sheet(sh["name"], ft["name"], ft["rows"], ft["cols"])
            t = doc.sheets[si].tables[0]
            t.num_header_rows = ft["hr"]
            t.num_header_cols = ft["hc"]
        for ti, tc in enumerate(sh["tables"]):
            if ti > 0:
                doc.sheets[si].add_table(tc["name"], None, None, tc["rows"], tc["cols"], tc["hr"], tc["hc"])
            t = doc.sheets[si].tables[ti]
            for c, lab in tc["col_labels"].items():
                if lab != "":
                    t.write(tc["hr"] - 1, int(c), lab)
            for r, lab in tc["row_labels"].items():
                if lab != "":
                    t.write(int(r), tc["hc"] - 1, lab)
            if tc.get("header_merge"):
                from vf import a1

                r_, c0_, c1_ = tc["header_merge"]
                t.merge_cells(a1.cell_name(r_, c0_) + ":" + a1.cell_name(r_, c1_))
            for r in range(tc["hr"], tc["rows"]):
                for c in range(tc["hc"], tc["cols"]):
                    t.write(r, c, r * 10 + c)
    return doc


# ------------------------------------------------------------------------------------------
# reference nodes

def axis_lists(b, e, b_abs, e_abs, h, pair, decoy):
    """-> (relative_list, absolute_list) for one axis of a colon tract"""
    def entry(x, y=None):
        d = {"range_begin": x}
        if y is not None and y != x:
            d["range_end"] = y
        return d

    if not b_abs and not e_abs:
        return [entry(b - h, e - h)], []
    if b_abs and e_abs:
        return [], [entry(b, e)]
    if b_abs:  # end relative
        rel = entry(decoy - h, e - h) if pair and decoy < e else entry(e - h)
        return [rel], [entry(b)]
    rel = entry(b - h, decoy - h) if pair and decoy > b else entry(b - h)
    return [rel], [entry(e)]


def node_for(ref, host, uuid_of, host_table):
    from numbers_parser.numbers_uuid import NumbersUUID

    hr_, hc_ = host
    k = ref["kind"]
    node = {}
    if k == "colon":
        # a rectangle stored the other way Numbers has: two cell reference nodes joined by a colon node
        br, er, bc, ec = ref["abs"]
        extra = {}
        if tuple(ref["to"]) != tuple(host_table):
            extra = {"AST_cross_table_reference_extra_info": {"table_id": NumbersUUID(uuid_of[tuple(ref["to"])]).protobuf4}}
        ends = []
        for r, c, ra, ca in ((ref["r0"], ref["c0"], br, bc), (ref["r1"], ref["c1"], er, ec)):
            ends.append({"AST_node_type": "CELL_REFERENCE_NODE", "AST_row": {"row": r if ra else r - hr_, "absolute": ra},
                         "AST_column": {"column": c if ca else c - hc_, "absolute": ca}, **extra})
        return [*ends, {"AST_node_type": "COLON_NODE"}]
    if k in ("cell", "row", "col"):
        node["AST_node_type"] = "CELL_REFERENCE_NODE"
        if k in ("cell", "row"):
            node["AST_row"] = {"row": ref["row"] if ref["row_abs"] else ref["row"] - hr_, "absolute": ref["row_abs"]}
        if k in ("cell", "col"):
            node["AST_column"] = {"column": ref["col"] if ref["col_abs"] else ref["col"] - hc_, "absolute": ref["col_abs"]}
    else:
        node["AST_node_type"] = "COLON_TRACT_NODE"
        br, er, bc, ec = ref["abs"]
        node["AST_sticky_bits"] = {"begin_row_is_absolute": br, "end_row_is_absolute": er, "begin_column_is_absolute": bc, "end_column_is_absolute": ec}
        tract = {"preserve_rectangular": True}
        if k in ("rect", "rows"):
            rel, ab = axis_lists(ref["r0"], ref["r1"], br, er, hr_, ref.get("pair"), ref.get("decoy_r", ref["r0"]))
            if rel:
                tract["relative_row"] = rel
            if ab:
                tract["absolute_row"] = ab
        if k in ("rect", "cols"):
            rel, ab = axis_lists(ref["c0"], ref["c1"], bc, ec, hc_, ref.get("pair"), ref.get("decoy_c", ref["c0"]))
            if rel:
                tract["relative_column"] = rel
            if ab:
                tract["absolute_column"] = ab
        if k == "rows":
            tract["absolute_column"] = [{"range_begin": 0x7FFF}]
        if k == "cols":
            tract["absolute_row"] = [{"range_begin": 0x7FFFFFFF}]
        node["AST_colon_tract"] = tract
    if tuple(ref["to"]) != tuple(host_table):
        node["AST_cross_table_reference_extra_info"] = {"table_id": NumbersUUID(uuid_of[tuple(ref["to"])]).protobuf4}
    return node


@st.composite
def references(draw, config):
    tabs = [(si, ti, t) for si, sh in enumerate(config["sheets"]) for ti, t in enumerate(sh["tables"])]
    hs, ht, host_t = draw(st.sampled_from(tabs))
    host = [draw(st.integers(host_t["hr"], host_t["rows"] - 1)), draw(st.integers(host_t["hc"], host_t["cols"] - 1))]
    same = draw(st.integers(0, 2)) == 0
    ts, tt, tgt = (hs, ht, host_t) if same else draw(st.sampled_from(tabs))
    kind = draw(st.sampled_from(["cell", "cell", "rect", "rect", "rows", "cols", "row", "col", "row", "col", "colon"]))
    R, C = tgt["rows"], tgt["cols"]
    b = st.booleans()
    ref = {"to": [ts, tt], "kind": kind, "host_table": [hs, ht], "host": host}
    if kind == "cell":
        ref.update(row=draw(st.integers(0, R - 1)), col=draw(st.integers(0, C - 1)), row_abs=draw(b), col_abs=draw(b))
    elif kind == "row":
        ref.update(row=draw(st.integers(0, R - 1)), row_abs=draw(b))
    elif kind == "col":
        ref.update(col=draw(st.integers(0, C - 1)), col_abs=draw(b))
    else:
        r0 = draw(st.integers(0, R - 1))
        r1 = draw(st.integers(r0, R - 1))
        c0 = draw(st.integers(0, C - 1))
        c1 = draw(st.integers(c0, C - 1))
        if kind in ("rect", "colon") and (r0, c0) == (r1, c1):
            if c1 < C - 1:
                c1 += 1
            else:
                c0 -= 1
        ref.update(r0=r0, r1=r1, c0=c0, c1=c1, abs=[draw(b), draw(b), draw(b), draw(b)], pair=draw(b),
                   decoy_r=draw(st.integers(0, R - 1)), decoy_c=draw(st.integers(0, C - 1)))
        if kind == "rows":
            ref["abs"][2] = ref["abs"][3] = False
        if kind == "cols":
            ref["abs"][0] = ref["abs"][1] = False
        # an axis with one fixed and one relative end may be stored with its end before its begin (a running total "A$3:A4" filled
        # upwards becomes "A$3:A1"): the '$' marks must stay on the coordinates they were stored with
        if kind != "cols" and ref["abs"][0] != ref["abs"][1] and draw(st.integers(0, 2)) == 0:
            ref["r0"], ref["r1"] = ref["r1"], ref["r0"]
        if kind != "rows" and ref["abs"][2] != ref["abs"][3] and draw(st.integers(0, 2)) == 0:
            ref["c0"], ref["c1"] = ref["c1"], ref["c0"]
    if draw(st.integers(0, 2)) == 0:
        # the stored formula is shared with a second body cell of the host table (read after the first one)
        twin = [draw(st.integers(host_t["hr"], host_t["rows"] - 1)), draw(st.integers(host_t["hc"], host_t["cols"] - 1))]
        if twin != host:
            ref["twin"] = twin
    return ref


def shifted(ref, host2, config):
    """The reading of the same stored node at another host cell of the same table (a formula key shared by several cells, as fill-down
    produces): relative components move with the host, fixed ones stay. None when the moved target leaves its table."""
    import copy

    dr, dc = host2[0] - ref["host"][0], host2[1] - ref["host"][1]
    tgt = config["sheets"][ref["to"][0]]["tables"][ref["to"][1]]
    R, C = tgt["rows"], tgt["cols"]
    r2 = copy.deepcopy({k: v for k, v in ref.items() if k != "twin"})
    r2["host"] = list(host2)
    k = ref["kind"]
    if k in ("cell", "row") and not ref["row_abs"]:
        r2["row"] += dr
    if k in ("cell", "col") and not ref["col_abs"]:
        r2["col"] += dc
    if k in ("rect", "colon", "rows"):
        r2["r0"] += 0 if ref["abs"][0] else dr
        r2["r1"] += 0 if ref["abs"][1] else dr
    if k in ("rect", "colon", "cols"):
        r2["c0"] += 0 if ref["abs"][2] else dc
        r2["c1"] += 0 if ref["abs"][3] else dc
    rows_ = [r2[x] for x in ("row", "r0", "r1") if x in r2 and (x != "row" or k in ("cell", "row"))]
    cols_ = [r2[x] for x in ("col", "c0", "c1") if x in r2 and (x != "col" or k in ("cell", "col"))]
    if any(not 0 <= v < R for v in rows_) or any(not 0 <= v < C for v in cols_):
        return None
    if k in ("rect", "colon") and (r2["r0"], r2["c0"]) == (r2["r1"], r2["c1"]):
        return None
    # an axis whose ends carry the same flag keeps its order; one with mixed flags may now be stored end-first, which is fine
    r2["_origin"] = {k_: v for k_, v in ref.items()}
    return r2


def nontrivial(ref):
    cross = ref["to"] != ref["host_table"]
    mixed = ref["kind"] in ("rect", "colon", "rows", "cols") and len(set(ref["abs"])) > 1
    return cross or mixed or ref["kind"] in ("row", "col", "rows", "cols")


# ------------------------------------------------------------------------------------------
# oracle

def judge(text, config, ref):
    """-> (signature_tail, message) or None"""
    host_table = tuple(ref["host_table"])
    try:
        readings = rr.resolve(text, config, host_table)
    except rr.Unreadable as e:
        return ("unreadable",), f"printed reference {text!r}: {e}"
    kind = ref["kind"]
    if not readings:
        return ("no_table_matches", kind), f"printed reference {text!r} matches no table/label of the document"
    tables = {(si, ti) for si, ti, _, _ in readings}
    if len(tables) > 1:
        return ("ambiguous_table", kind), f"printed reference {text!r} can denote tables {sorted(tables)} given the document's names"
    if len(readings) > 1:
        return ("ambiguous_label", kind), f"printed reference {text!r} has several readings inside its table"
    si, ti, p, lt = readings[0]
    if (si, ti) != tuple(ref["to"]):
        return ("wrong_table", kind), f"printed reference {text!r} denotes table {(si, ti)}, stored target table is {tuple(ref['to'])}"
    h = ref["host"]
    if kind == "cell":
        if p["kind"] != "cell" or (p["row"], p["col"]) != (ref["row"], ref["col"]):
            return ("wrong_cell",), f"{text!r} denotes {p}, stored cell is ({ref['row']},{ref['col']}) (host {h})"
        if (p["row_abs"], p["col_abs"]) != (ref["row_abs"], ref["col_abs"]):
            return ("wrong_dollar", "cell"), f"{text!r}: '$' marks {(p['row_abs'], p['col_abs'])}, stored absolute flags {(ref['row_abs'], ref['col_abs'])}"
        return None
    if kind in ("rect", "colon"):
        if p["kind"] != "rect":
            return ("wrong_shape", kind), f"{text!r} reads as {p['kind']}, stored node is a rectangle"
        if (p["r0"], p["c0"], p["r1"], p["c1"]) != (ref["r0"], ref["c0"], ref["r1"], ref["c1"]):
            sw = (p["r0"], p["c0"], p["r1"], p["c1"]) == (ref["r1"], ref["c1"], ref["r0"], ref["c0"])
            return ("range_ends_swapped" if sw else "wrong_range",), f"{text!r} denotes {(p['r0'], p['c0'], p['r1'], p['c1'])}, stored {(ref['r0'], ref['c0'], ref['r1'], ref['c1'])} (host {h})"
        if p["abs"] != ref["abs"]:
            return ("wrong_dollar", "rect"), f"{text!r}: '$' marks {p['abs']} (row begin/end, col begin/end), stored {ref['abs']}"
        return None
    # whole rows / columns
    axis = "row" if kind in ("row", "rows") else "col"
    i0, i1 = (ref["row"], ref["row"]) if kind == "row" else (ref["col"], ref["col"]) if kind == "col" else (ref["r0"], ref["r1"]) if kind == "rows" else (ref["c0"], ref["c1"])
    want_abs = [ref["row_abs"]] * 2 if kind == "row" else [ref["col_abs"]] * 2 if kind == "col" else ref["abs"][0:2] if kind == "rows" else ref["abs"][2:4]
    if lt is not None:
        laxis, l0, l1 = lt
        if (laxis, l0, l1) != (axis, i0, i1):
            return ("label_names_other_line", kind), f"{text!r}: label(s) name {laxis} {l0}..{l1}, stored target is {axis} {i0}..{i1}"
        got_abs = p["abs"] if len(p["abs"]) == 2 else p["abs"] * 2
        if got_abs != want_abs:
            return ("wrong_dollar", "label"), f"{text!r}: '$' marks {got_abs}, stored {want_abs}"
        return None
    if axis == "row":
        if p["kind"] != "rows" or (p["r0"], p["r1"]) != (i0, i1):
            return ("wrong_rows", kind), f"{text!r} reads as {p}, stored rows {i0}..{i1}"
        if p["abs"] != want_abs:
            return ("wrong_dollar", "rows"), f"{text!r}: '$' marks {p['abs']}, stored {want_abs}"
    else:
        if p["kind"] != "cols" or (p["c0"], p["c1"]) != (i0, i1):
            return ("wrong_cols", kind), f"{text!r} reads as {p}, stored columns {i0}..{i1}"
        if p["abs"] != want_abs:
            return ("wrong_dollar", "cols"), f"{text!r}: '$' marks {p['abs']}, stored {want_abs}"
    return None


def check_config(ctx, case):
    from numbers_parser import Document
    from numbers_parser.generated import TSCEArchives_pb2 as TSCE

    config, refs = case["config"], case["refs"]
    tmp = Path(tempfile.mkdtemp(prefix="vf_c09_"))
    try:
        def make():
            with warnings.catch_warnings():
                warnings.simplefilter("ignore")
                doc = build(config)
                model = doc._model
                uuid_of = {(si, ti): model.table_base_id(doc.sheets[si].tables[ti]._table_id)
                           for si, sh in enumerate(config["sheets"]) for ti, _ in enumerate(sh["tables"])}
                used = {}
                for ref in refs:
                    hs, ht = ref["host_table"]
                    t = doc.sheets[hs].tables[ht]
                    key = (hs, ht, tuple(ref["host"]))
                    if key in used:
                        continue  # one formula per host cell
                    used[key] = ref
                    node = node_for(ref, ref["host"], uuid_of, (hs, ht))
                    model._formulas.add_table(t._table_id)
                    fid = model._formulas.lookup_key(t._table_id, TSCE.FormulaArchive(AST_node_array={"AST_node": node if isinstance(node, list) else [node]}))
                    t.cell(*ref["host"])._formula_id = fid
                    if ref.get("twin") and (hs, ht, tuple(ref["twin"])) not in used:
                        # the same formula key at a second cell of the table
                        ref2 = shifted(ref, ref["twin"], config)
                        if ref2 is not None:
                            used[(hs, ht, tuple(ref["twin"]))] = ref2
                            t.cell(*ref["twin"])._formula_id = fid
                doc.save(tmp / "r.numbers")
                return Document(tmp / "r.numbers"), list(used.values())

        res = ctx.guard(("C09", "build"), case, make)
        if res is None:
            return
        d2, placed = res

        def read_all(doc, phase, cfg, skip=None):
            for ref in placed:
                if skip is not None and skip(ref):
                    continue
                hs, ht = ref["host_table"]
                cell = doc.sheets[hs].tables[ht].cell(*ref["host"])
                # the replay case is the original configuration plus the edits that led to this phase
                sub = {"lane": "config", "config": config, "refs": [ref.get("_origin") or ref], "phase": phase,
                       "edit": case.get("edit") if phase != "reopened" else None,
                       "edit_format": case.get("edit_format") if phase not in ("reopened", "after_header_edit") else None,
                       "rename": case.get("rename") if phase not in ("reopened", "after_header_edit", "after_number_label", "after_header_format") else None,
                       "rename_sheet": case.get("rename_sheet") if phase in ("after_sheet_rename", "after_header_zero", "after_insert", "after_header_merge") else None,
                       "header_zero": case.get("header_zero") if phase in ("after_header_zero", "after_insert", "after_header_merge") else None,
                       "insert": case.get("insert") if phase in ("after_insert", "after_header_merge") else None,
                       "merge_header": case.get("merge_header") if phase == "after_header_merge" else None}
                ctx.ev()
                with warnings.catch_warnings():
                    warnings.simplefilter("ignore")
                    text = ctx.guard(("C09", "formula_raised", ref["kind"]), sub, lambda: cell.formula)
                if text is None:
                    continue
                bad = judge(text, cfg, ref)
                if bad is not None:
                    ctx.fail(("C09", *bad[0]), {**sub, "text": text}, f"[{phase}] host {ref['host_table']}{ref['host']}: {bad[1]}")
                if "_origin" in ref:
                    ctx.count("read_at_second_host_of_shared_formula")
                if nontrivial(ref):
                    ctx.nt((cfg, {k: v for k, v in ref.items() if k != "_origin"}))
                ctx.count("kind_" + ref["kind"])
                ctx.count("cross_table" if ref["to"] != ref["host_table"] else "same_table")
                if ref["kind"] in ("rect", "colon", "rows", "cols") and (ref["r0"] > ref["r1"] or ref["c0"] > ref["c1"]):
                    ctx.count("range_stored_end_first")
                if "::" not in text and not any(ch.isdigit() for ch in text.split(":")[0].lstrip("$'")) and ref["kind"] in ("row", "col", "rows", "cols"):
                    ctx.count("printed_as_label")
                ctx.sample({"ref": {k: v for k, v in ref.items() if k not in ("decoy_r", "decoy_c")}, "text": text}, every=53)

        read_all(d2, "reopened", config)
        # cache invalidation: rewrite one header label through Table.write and check again
        edit = case.get("edit")
        cfg_now = config
        if edit:
            import copy

            si, ti, axis, idx, new = edit
            tc = config["sheets"][si]["tables"][ti]
            labels = tc["col_labels" if axis == "col" else "row_labels"]
            other = tc["row_labels" if axis == "col" else "col_labels"]
            hidden = tc.get("header_merge") and axis == "col" and idx == tc["header_merge"][2]   # a write there is refused
            if str(idx) in labels and new != "" and new not in other.values() and not hidden:
                cfg2 = copy.deepcopy(config)
                t = d2.sheets[si].tables[ti]
                with warnings.catch_warnings():
                    warnings.simplefilter("ignore")
                    if axis == "col":
                        t.write(tc["hr"] - 1, idx, new)
                    else:
                        t.write(idx, tc["hc"] - 1, new)
                cfg2["sheets"][si]["tables"][ti]["col_labels" if axis == "col" else "row_labels"][str(idx)] = new
                read_all(d2, "after_header_edit", cfg2)
                ctx.count("header_edits")
                cfg_now = cfg2
        # a number as a label, then a number format on that header cell: the label is the text the cell displays
        ef = case.get("edit_format")
        if ef:
            import copy

            si, ti, axis, idx, value, places = ef
            tcn = cfg_now["sheets"][si]["tables"][ti]
            labels = tcn["col_labels" if axis == "col" else "row_labels"]
            other = tcn["row_labels" if axis == "col" else "col_labels"]
            hidden = tcn.get("header_merge") and axis == "col" and idx == tcn["header_merge"][2]
            shown = [repr(float(value)), f"{value:.{places}f}"]
            if str(idx) in labels and not hidden and not (set(shown) & (set(other.values()) | set(labels.values()))):
                t = d2.sheets[si].tables[ti]
                pos = (tcn["hr"] - 1, idx) if axis == "col" else (idx, tcn["hc"] - 1)
                for step, text in enumerate(shown):
                    with warnings.catch_warnings():
                        warnings.simplefilter("ignore")
                        if step == 0:
                            t.write(*pos, float(value))
                        else:
                            t.set_cell_formatting(*pos, "number", decimal_places=places)
                    cfgf = copy.deepcopy(cfg_now)
                    cfgf["sheets"][si]["tables"][ti]["col_labels" if axis == "col" else "row_labels"][str(idx)] = text
                    read_all(d2, "after_number_label" if step == 0 else "after_header_format", cfgf)
                    cfg_now = cfgf
                ctx.count("header_formats")
        # renaming a table changes which names are unique in the document: printed references must follow
        ren = case.get("rename")
        if ren:
            import copy

            si, ti, new = ren
            siblings = [t["name"].lower() for k, t in enumerate(cfg_now["sheets"][si]["tables"]) if k != ti]
            if new.lower() not in siblings and new != cfg_now["sheets"][si]["tables"][ti]["name"]:
                cfg3 = copy.deepcopy(cfg_now)
                d2.sheets[si].tables[ti].name = new
                cfg3["sheets"][si]["tables"][ti]["name"] = new
                read_all(d2, "after_rename", cfg3)
                ctx.count("table_renames")
                cfg_now = cfg3
        rs_ = case.get("rename_sheet")
        if rs_:
            import copy

            si, new = rs_
            cfg4 = copy.deepcopy(cfg_now)
            d2.sheets[si].name = new
            cfg4["sheets"][si]["name"] = new
            read_all(d2, "after_sheet_rename", cfg4)
            ctx.count("sheet_renames")
            cfg_now = cfg4
        # a header count set to zero: the labels of that axis stop being names
        hz = case.get("header_zero")
        if hz:
            import copy

            si, ti, axis = hz
            tcn = cfg_now["sheets"][si]["tables"][ti]
            if tcn["hr" if axis == "row" else "hc"] > 0:
                cfg5 = copy.deepcopy(cfg_now)
                t5 = cfg5["sheets"][si]["tables"][ti]
                tab = d2.sheets[si].tables[ti]
                if axis == "row":      # no header rows: no column labels
                    tab.num_header_rows = 0
                    t5["hr"], t5["col_labels"] = 0, {}
                else:                   # no header columns: no row labels; the former header columns are body columns with
                    tab.num_header_cols = 0   # an empty cell in the label row
                    t5["hc"], t5["row_labels"] = 0, {}
                    if t5["hr"]:
                        for c in range(tcn["hc"]):
                            t5["col_labels"][str(c)] = ""
                read_all(d2, "after_header_zero", cfg5)
                ctx.count("header_counts_zeroed")
                cfg_now = cfg5
        # a column / row inserted into a table: stored
        # references keep their coordinates, the labels move on by one
        ins = case.get("insert")
        skip_now = None
        if ins:
            import copy

            si, ti, axis, frac = ins
            tcn = cfg_now["sheets"][si]["tables"][ti]
            n, h = (tcn["cols"], tcn["hc"]) if axis == "col" else (tcn["rows"], tcn["hr"])
            ax = 1 if axis == "col" else 0
            # (a table with merged label cells is left alone: structural edits do not move merges - the open C12 finding)
            if h <= n - 1 and not tcn.get("header_merge"):
                k = h + int(frac * (n - h))
                # formulas hosted in the table at or after the insertion point move with their cells (their relative
                # references then denote other cells): they are left out of this phase
                moved_host = lambda r, si=si, ti=ti, ax=ax, k=k: r["host_table"] == [si, ti] and r["host"][ax] >= k  # noqa: E731
                cfg6 = copy.deepcopy(cfg_now)
                t6 = cfg6["sheets"][si]["tables"][ti]
                tab = d2.sheets[si].tables[ti]
                key = "col_labels" if axis == "col" else "row_labels"
                if axis == "col":
                    tab.add_column(1, k)
                    t6["cols"] += 1
                else:
                    tab.add_row(1, k)
                    t6["rows"] += 1
                if t6[key] or (t6["hr"] if axis == "col" else t6["hc"]):
                    moved = {str(int(i) + 1 if int(i) >= k else int(i)): lab for i, lab in t6[key].items()}
                    if (t6["hr"] if axis == "col" else t6["hc"]):
                        moved[str(k)] = ""
                    t6[key] = moved
                read_all(d2, "after_insert", cfg6, skip=moved_host)
                ctx.count("lines_inserted")
                cfg_now = cfg6
                skip_now = moved_host
        # two label cells merged on the open document: the hidden one stops naming its column
        hm = case.get("merge_header")
        if hm:
            import copy

            from vf import a1

            si, ti, frac = hm
            tcn = cfg_now["sheets"][si]["tables"][ti]
            if tcn["hr"] and tcn["cols"] - tcn["hc"] >= 2 and not tcn.get("header_merge"):
                c0 = tcn["hc"] + int(frac * (tcn["cols"] - tcn["hc"] - 1))
                cfg7 = copy.deepcopy(cfg_now)
                d2.sheets[si].tables[ti].merge_cells(a1.cell_name(tcn["hr"] - 1, c0) + ":" + a1.cell_name(tcn["hr"] - 1, c0 + 1))
                cfg7["sheets"][si]["tables"][ti]["col_labels"][str(c0 + 1)] = ""
                read_all(d2, "after_header_merge", cfg7, skip=skip_now)
                ctx.count("header_cells_merged")
                cfg_now = cfg7
        ctx.count("configurations")
    finally:
        shutil.rmtree(tmp, ignore_errors=True)


@st.composite
def cases(draw, nrefs):
    config = draw(configs())
    refs = draw(st.lists(references(config), min_size=nrefs, max_size=nrefs))
    tabs = [(si, ti, t) for si, sh in enumerate(config["sheets"]) for ti, t in enumerate(sh["tables"])]
    si, ti, t = draw(st.sampled_from(tabs))
    axis = draw(st.sampled_from(["col", "row"]))
    labels = t["col_labels"] if axis == "col" else t["row_labels"]
    edit = None
    if labels:
        idx = int(draw(st.sampled_from(sorted(labels))))
        edit = [si, ti, axis, idx, draw(st.sampled_from(LABELS[:8] + ["renamed", "alpha 1"]))]
    edit_format = None
    if labels and draw(st.booleans()):
        edit_format = [si, ti, axis, int(draw(st.sampled_from(sorted(labels)))), draw(st.sampled_from([1234.5, 0.25, 7.0, 19.1])), draw(st.integers(2, 4))]
    rs, rt, _ = draw(st.sampled_from(tabs))
    rename = [rs, rt, draw(st.sampled_from(TABLE_NAMES + ["Renamed"]))]
    rename_sheet = [draw(st.integers(0, len(config["sheets"]) - 1)), draw(st.sampled_from(["Totals", "Q1 'draft'", "a-b", "Sheet 9"]))]
    hs, ht, _ = draw(st.sampled_from(tabs))
    header_zero = [hs, ht, draw(st.sampled_from(["row", "col"]))] if draw(st.booleans()) else None
    is_, it_, _ = draw(st.sampled_from(tabs))
    insert = [is_, it_, draw(st.sampled_from(["row", "col"])), draw(st.floats(0, 0.999))]
    ms, mt, _ = draw(st.sampled_from(tabs))
    merge_header = [ms, mt, draw(st.floats(0, 0.999))]
    return {"lane": "config", "config": config, "refs": refs, "edit": edit, "rename": rename, "rename_sheet": rename_sheet,
            "header_zero": header_zero, "insert": insert, "merge_header": merge_header, "edit_format": edit_format}


def wide_case():
    """One table of 720 columns without headers: references to and from the columns around Z/AA (25/26), ZZ/AAA (701/702) and the
    last one are printed as coordinates and must read back as the stored columns."""
    config = {"sheets": [{"name": "Sheet 1", "tables": [{"name": "Wide", "rows": 3, "cols": 720, "hr": 0, "hc": 0, "col_labels": {}, "row_labels": {}}]}]}
    cols = [0, 25, 26, 27, 51, 52, 675, 676, 700, 701, 702, 703, 718, 719]
    refs = []
    hosts = [[1, 1], [2, 704], [0, 26], [1, 719], [2, 0], [0, 701], [1, 702], [2, 350]]
    k = 0
    for c in cols:
        for ca in (False, True):
            host = hosts[k % len(hosts)]
            k += 1
            refs.append({"to": [0, 0], "kind": "cell", "host_table": [0, 0], "host": host, "row": k % 3, "col": c, "row_abs": bool(k % 2), "col_abs": ca})
    for c0, c1 in ((700, 703), (25, 27), (701, 702), (702, 719), (0, 719), (675, 702)):
        for flags in ([False] * 4, [True] * 4, [False, False, True, False], [False, False, False, True]):
            host = hosts[k % len(hosts)]
            k += 1
            refs.append({"to": [0, 0], "kind": "rect", "host_table": [0, 0], "host": host, "r0": 0, "r1": 2, "c0": c0, "c1": c1, "abs": list(flags), "pair": False,
                         "decoy_r": 0, "decoy_c": c0})
            host = hosts[k % len(hosts)]
            k += 1
            refs.append({"to": [0, 0], "kind": "cols", "host_table": [0, 0], "host": host, "r0": 0, "r1": 0, "c0": c0, "c1": c1, "abs": [False, False, flags[2], flags[3]], "pair": False,
                         "decoy_r": 0, "decoy_c": c0})
    # one host per reference: hosts are spread over the three rows and all columns
    for i, ref in enumerate(refs):
        ref["host"] = [i % 3, (i * 37) % 720]
    return {"lane": "config", "config": config, "refs": refs}


def tasks(tier, seed):
    t = [("wide", {})]
    for k in range(16):
        t.append(("configs", {"n": 8 if tier == "quick" else 110, "nrefs": 150, "seed": derive_seed(seed, "c09", k)}))
    return t


def run_task(ctx, lane, **kw):
    from hypothesis import Phase

    if lane == "wide":
        check_config(ctx, wide_case())
        ctx.count("wide_tables")
        return
    run_given(ctx, cases(kw["nrefs"]), lambda c: check_config(ctx, c), kw["n"], kw["seed"], phases=(Phase.explicit, Phase.generate))


def check_case(ctx, case):
    case = {k: v for k, v in case.items() if k in ("lane", "config", "refs", "edit", "rename", "rename_sheet", "header_zero", "insert", "merge_header", "edit_format")}
    check_config(ctx, case)
