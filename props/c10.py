"""C10  A1-notation conversion functions are mutually inverse bijections (exhaustive per axis)."""
import itertools

from vf import a1
from vf.core import derive_seed, run_given

ID = "C10"
RULE = (
    "Enumeration: every column 0..18277 (all names of <=3 letters) x rows {0,8,9,98,99,999,999999} x 4 '$' "
    "forms; every row 0..100000 (quick) / 0..1000000 (thorough) x columns {0,25,26,701,702,18277} x 4 '$' "
    "forms; xl_range over the product of boundary corners, over every second corner within +-3 rows/columns of 70 first corners (in either order) and over Hypothesis-sampled corners; negatives. "
    "Oracle: independent shortlex/bijective-base-26 codec (vf/a1.py); encode==reference, decode(encode)==id "
    "for xl_cell_to_rowcol, xl_col_to_offset and the formula-range decoder (parse_numbers_range). "
    "Non-trivial: column >= 26 or row >= 9 (multi-letter name or multi-digit row); distinct by input tuple "
    "(enumerated inputs are pairwise distinct by construction)."
)
ASSUMPTIONS = [
    "columns are limited to three letters (0..18277) as in the property; the library's decoder regex "
    "accepts at most three letters",
    "parse_numbers_range is exercised through a stub model that supplies only name-cache no-ops",
]
EXHAUSTIVE = {"quick": False, "thorough": True}
EXHAUSTIVE_NOTE = (
    "columns 0..18277 complete in both tiers; rows 0..1000000 complete in thorough (0..100000 in quick)"
)

NCOLS = 18278
COLSET = [0, 25, 26, 701, 702, 18277]
ROWSET = [0, 8, 9, 98, 99, 999, 999_999]
FORMS = [(False, False), (False, True), (True, False), (True, True)]


class _Cache:
    def refresh(self):
        pass


class _StubModel:
    name_ref_cache = _Cache()

    def table_names(self):
        return []

    def table_id_to_sheet_id(self, _):
        return 0


def _lib():
    from numbers_parser import xrefs
    from numbers_parser.tokenizer import parse_numbers_range

    return xrefs, parse_numbers_range


def tasks(tier, seed):
    t = []
    nshard = 16
    for s in range(nshard):
        t.append(("columns", {"shard": s, "nshard": nshard}))
    max_row = 100_000 if tier == "quick" else 1_000_000
    nrow_shards = 16 if tier == "quick" else 64
    step = (max_row + 1 + nrow_shards - 1) // nrow_shards
    for s in range(nrow_shards):
        t.append(("rows", {"lo": s * step, "hi": min(max_row + 1, (s + 1) * step)}))
    t.append(("ranges", {"n": 3000 if tier == "quick" else 60000, "seed": derive_seed(seed, "c10r")}))
    t.append(("negatives", {"n": 500 if tier == "quick" else 5000, "seed": derive_seed(seed, "c10n")}))
    return t


def check_cell(ctx, xrefs, pnr, row, col, row_abs, col_abs, deep=False):
    case = {"lane": "cell", "row": row, "col": col, "row_abs": row_abs, "col_abs": col_abs}
    ctx.guard(("C10", "cell"), case, _check_cell, ctx, xrefs, pnr, row, col, row_abs, col_abs, deep)


def _check_cell(ctx, xrefs, pnr, row, col, row_abs, col_abs, deep=False):
    case = {"lane": "cell", "row": row, "col": col, "row_abs": row_abs, "col_abs": col_abs}
    ctx.ev()
    want = a1.cell_name(row, col, row_abs, col_abs)
    got = xrefs.xl_rowcol_to_cell(row, col, row_abs=row_abs, col_abs=col_abs)
    if got != want:
        ctx.fail(("C10", "encode"), case, f"xl_rowcol_to_cell -> {got!r}, bijective base-26 says {want!r}")
    back = xrefs.xl_cell_to_rowcol(got)
    if tuple(back) != (row, col):
        ctx.fail(("C10", "roundtrip"), case, f"xl_cell_to_rowcol({got!r}) -> {back!r}, expected {(row, col)}")
    if deep:
        r = pnr(_StubModel(), got)
        obs = (r.row_start, r.col_start, r.row_start_is_abs, r.col_start_is_abs, r.row_end, r.col_end)
        if obs != (row, col, row_abs, col_abs, None, None):
            ctx.fail(("C10", "formula_range_decoder"), case, f"parse_numbers_range({got!r}) -> {obs!r}")


def check_col(ctx, xrefs, pnr, col, names_seen):
    ctx.guard(("C10", "col"), {"lane": "col", "col": col}, _check_col, ctx, xrefs, pnr, col, names_seen)


def _check_col(ctx, xrefs, pnr, col, names_seen):
    case = {"lane": "col", "col": col}
    ctx.ev()
    want = a1.col_name(col)
    for col_abs in (False, True):
        got = xrefs.xl_col_to_name(col, col_abs)
        if got != ("$" if col_abs else "") + want:
            ctx.fail(("C10", "col_name"), {**case, "col_abs": col_abs}, f"xl_col_to_name -> {got!r}, expected {want!r}")
        back = xrefs.xl_col_to_offset(got)
        if back != col:
            ctx.fail(("C10", "col_roundtrip"), {**case, "col_abs": col_abs}, f"xl_col_to_offset({got!r}) -> {back!r}")
    name = xrefs.xl_col_to_name(col)
    if not (1 <= len(name) <= 3 and all(ch in a1.LETTERS for ch in name)):
        ctx.fail(("C10", "col_alphabet"), case, f"name {name!r} is not 1..3 letters A..Z")
    names_seen.append(name)


def run_task(ctx, lane, **kw):
    xrefs, pnr = _lib()
    if lane == "columns":
        names = []
        cols = range(kw["shard"], NCOLS, kw["nshard"])
        for col in cols:
            check_col(ctx, xrefs, pnr, col, names)
            for row in ROWSET:
                for row_abs, col_abs in FORMS:
                    check_cell(ctx, xrefs, pnr, row, col, row_abs, col_abs, deep=(row in (0, 9, 999_999)))
            if col >= 26:
                ctx.nt_enum(1 + len(ROWSET) * 4)
            else:
                ctx.nt_enum(sum(1 for r in ROWSET if r >= 9) * 4)
        # order preservation and injectivity inside the shard (stride keeps order): shortlex order
        keys = [(len(n), n) for n in names]
        for i in range(1, len(keys)):
            ctx.ev()
            if not keys[i - 1] < keys[i]:
                ctx.fail(("C10", "order"), {"lane": "col_order", "col_a": cols[i - 1], "col_b": cols[i]},
                         f"names {names[i-1]!r} / {names[i]!r} not strictly increasing in (length, lexicographic) order")
        # adjacent columns (global order): compare each with its successor
        for col in cols:
            if col + 1 < NCOLS:
                ctx.ev()
                na, nb = xrefs.xl_col_to_name(col), xrefs.xl_col_to_name(col + 1)
                if not (len(na), na) < (len(nb), nb):
                    ctx.fail(("C10", "order"), {"lane": "col_order", "col_a": col, "col_b": col + 1},
                             f"{na!r} !< {nb!r}")
        ctx.sample({"lane": "columns", "first": names[:3], "last": names[-3:]})
    elif lane == "rows":
        for row in range(kw["lo"], kw["hi"]):
            for col in COLSET:
                for row_abs, col_abs in FORMS:
                    check_cell(ctx, xrefs, pnr, row, col, row_abs, col_abs, deep=(row % 997 == 0))
            ctx.nt_enum(len(COLSET) * 4 if row >= 9 else (len(COLSET) - 2) * 4)
        ctx.sample({"lane": "rows", "lo": kw["lo"], "hi": kw["hi"], "example": xrefs.xl_rowcol_to_cell(kw["hi"] - 1, 702, True, False)})
    elif lane == "ranges":
        bounds_r = [0, 1, 8, 9, 999_998, 999_999]
        bounds_c = [0, 1, 25, 26, 701, 702, 18276, 18277]
        for r1, c1, r2, c2 in itertools.product(bounds_r, bounds_c, bounds_r, bounds_c):
            check_range(ctx, xrefs, r1, c1, r2, c2)
            ctx.nt_enum(1)
        # corners that nearly coincide: every offset of the second corner within +-3 rows and columns of the first
        for r1, c1 in itertools.product([0, 1, 3, 9, 500, 999_996, 999_999], [0, 1, 3, 25, 26, 27, 701, 702, 18274, 18277]):
            for dr, dc in itertools.product(range(-3, 4), range(-3, 4)):
                r2, c2 = r1 + dr, c1 + dc
                if 0 <= r2 <= 999_999 and 0 <= c2 <= 18277:
                    check_range(ctx, xrefs, r1, c1, r2, c2)
                    ctx.nt_enum(1)
        from hypothesis import strategies as st

        rows = st.integers(0, 999_999) | st.sampled_from(bounds_r)
        cols = st.integers(0, 18277) | st.sampled_from(bounds_c)
        corner = st.tuples(rows, cols)
        near = st.tuples(corner, st.integers(-4, 4), st.integers(-4, 4)).map(
            lambda t: (t[0], (min(999_999, max(0, t[0][0] + t[1])), min(18277, max(0, t[0][1] + t[2])))))
        strat = st.tuples(corner, corner) | corner.map(lambda c: (c, c)) | near

        def body(case):
            (r1, c1), (r2, c2) = case
            check_range(ctx, xrefs, r1, c1, r2, c2)
            ctx.nt(("range", r1, c1, r2, c2))

        run_given(ctx, strat, body, kw["n"], kw["seed"])
    elif lane == "negatives":
        for row, col in itertools.product(range(-5, 3), range(-5, 3)):
            check_negative(ctx, xrefs, row, col)
            ctx.nt_enum(1)
        from hypothesis import strategies as st

        strat = st.tuples(st.integers(-(10**9), 1_000_000), st.integers(-(10**9), 18277))

        def body(case):
            check_negative(ctx, xrefs, *case)
            ctx.nt(("neg",) + case)

        run_given(ctx, strat, body, kw["n"], kw["seed"])
    else:
        raise ValueError(lane)


def check_range(ctx, xrefs, r1, c1, r2, c2):
    case = {"lane": "range", "r1": r1, "c1": c1, "r2": r2, "c2": c2}
    ctx.guard(("C10", "range"), case, _check_range, ctx, xrefs, r1, c1, r2, c2)


def _check_range(ctx, xrefs, r1, c1, r2, c2):
    case = {"lane": "range", "r1": r1, "c1": c1, "r2": r2, "c2": c2}
    ctx.ev()
    got = xrefs.xl_range(r1, c1, r2, c2)
    a, b = a1.cell_name(r1, c1), a1.cell_name(r2, c2)
    want = a if (r1, c1) == (r2, c2) else a + ":" + b
    if got != want:
        ctx.fail(("C10", "range"), case, f"xl_range -> {got!r}, expected {want!r}")
    ctx.sample(case | {"text": got}, every=500)


def check_negative(ctx, xrefs, row, col):
    case = {"lane": "negative", "row": row, "col": col}
    ctx.ev()
    neg = row < 0 or col < 0
    for name, fn in (
        ("xl_rowcol_to_cell", lambda: xrefs.xl_rowcol_to_cell(row, col)),
        ("xl_col_to_name", lambda: xrefs.xl_col_to_name(col)),
        ("xl_range", lambda: xrefs.xl_range(row, col, row, col)),
    ):
        expect_raise = neg if name != "xl_col_to_name" else col < 0
        try:
            out = fn()
        except IndexError:
            if not expect_raise:
                ctx.fail(("C10", "spurious_indexerror", name), case, f"{name} raised IndexError for a valid position")
            continue
        except Exception as e:  # any other exception type
            ctx.fail(("C10", "negative_wrong_exception", name), case, f"{name} raised {type(e).__name__}: {e}")
            continue
        if expect_raise:
            ctx.fail(("C10", "negative_accepted", name), case, f"{name} returned {out!r} for a negative coordinate")
    ctx.sample(case, every=100)


def check_case(ctx, case):
    xrefs, pnr = _lib()
    lane = case["lane"]
    if lane == "cell":
        check_cell(ctx, xrefs, pnr, case["row"], case["col"], case["row_abs"], case["col_abs"], deep=True)
    elif lane == "col":
        check_col(ctx, xrefs, pnr, case["col"], [])
    elif lane == "col_order":
        na, nb = xrefs.xl_col_to_name(case["col_a"]), xrefs.xl_col_to_name(case["col_b"])
        if not (len(na), na) < (len(nb), nb):
            ctx.fail(("C10", "order"), case, f"{na!r} !< {nb!r}")
    elif lane == "range":
        check_range(ctx, xrefs, case["r1"], case["c1"], case["r2"], case["c2"])
    elif lane == "negative":
        check_negative(ctx, xrefs, case["row"], case["col"])
    else:
        raise ValueError(lane)
