"""C02 lane: documents the library itself produces through its editing API (vf/docgen recipes)."""
import shutil
import tempfile
import warnings
from pathlib import Path

from vf import docgen
from vf.core import run_given


def check_case(ctx, check_resave, case):
    tmp = Path(tempfile.mkdtemp(prefix="vf_c02g_"))
    try:
        def make():
            with warnings.catch_warnings():
                warnings.simplefilter("ignore")
                doc = docgen.build(case["recipe"])
                doc.save(tmp / "gen.numbers")
            return True

        if ctx.guard(("C02", "build_generated"), case, make) is None:
            return
        ctx.count("generated_documents")
        try:
            check_resave(ctx, {"lane": "resave", "path": str(tmp / "gen.numbers"), "label": "generated", "cycles": case["cycles"],
                               "access": case["access"], "mod": 1})
        except Exception as e:
            if hasattr(e, "case"):
                e.case = case  # replay needs the recipe, not the temp path
            raise
    finally:
        shutil.rmtree(tmp, ignore_errors=True)


def _banner(rows, cols, top, bottom):
    """a table whose rows top+1..bottom are wholly hidden by a merge across the full width, with values above and below"""
    from vf import a1

    ops = [["write", r, c, {"t": "str", "v": f"r{r}c{c}"} if (r + c) % 2 else {"t": "int", "v": str(r * 10 + c)}] for r in range(rows) for c in range(cols)
           if not (top <= r <= bottom)]
    ops.insert(len(ops) // 2, ["merge", a1.cell_name(top, 0) + ":" + a1.cell_name(bottom, cols - 1)])
    return {"styles": [], "custom_formats": [], "sheets": [{"name": "Sheet 1", "tables": [{"name": "Table 1", "rows": rows, "cols": cols, "hr": 1, "hc": 0, "ops": ops}]}]}


FIXED_RECIPES = [_banner(8, 3, 1, 3), _banner(6, 1, 2, 3), _banner(12, 8, 4, 5)]


def run(ctx, check_resave, n, seed, cycles):
    from hypothesis import strategies as st

    strat = st.tuples(docgen.recipes(max_ops=25), st.lists(st.booleans(), min_size=6, max_size=6))

    def body(c):
        recipe, access = c
        check_case(ctx, check_resave, {"lane": "generated", "recipe": recipe, "cycles": cycles, "access": access})

    from hypothesis import Phase

    for recipe in FIXED_RECIPES:
        body((recipe, [True] * 6))
    run_given(ctx, strat, body, n, seed, phases=(Phase.explicit, Phase.generate))
