"""C02 lane: documents the library itself produces through its editing API (vf/docgen recipes)."""
import shutil
import tempfile
import warnings
from pathlib import Path

from vf import docgen
from vf.core import run_given


def check_case(ctx, check_resave, case):
    tmp = Path(tempfile.mkdtemp(prefix="vf_c02g_"))
    try:
        def make():
            with warnings.catch_warnings():
                warnings.simplefilter("ignore")
                doc = docgen.build(case["recipe"])
                doc.save(tmp / "gen.numbers")
            return True

        if ctx.guard(("C02", "build_generated"), case, make) is None:
            return
        ctx.count("generated_documents")
        try:
            check_resave(ctx, {"lane": "resave", "path": str(tmp / "gen.numbers"), "label": "generated", "cycles": case["cycles"],
                               "access": case["access"], "mod": 1})
        except Exception as e:
            if hasattr(e, "case"):
                e.case = case  # replay needs the recipe, not the temp path
            raise
    finally:
        shutil.rmtree(tmp, ignore_errors=True)


def run(ctx, check_resave, n, seed, cycles):
    from hypothesis import strategies as st

    strat = st.tuples(docgen.recipes(max_ops=25), st.lists(st.booleans(), min_size=6, max_size=6))

    def body(c):
        recipe, access = c
        check_case(ctx, check_resave, {"lane": "generated", "recipe": recipe, "cycles": cycles, "access": access})

    from hypothesis import Phase

    run_given(ctx, strat, body, n, seed, phases=(Phase.explicit, Phase.generate))
