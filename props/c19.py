"""C19  Sheet and table collections: unique names, consistent lookup, stable order."""
import re

from hypothesis import strategies as st
from hypothesis.stateful import RuleBasedStateMachine, initialize, rule

from vf.core import derive_seed, run_machine
from vf.hist import Exec, _Abort

ID = "C19"
RULE = (
    "Hypothesis rule-based state machine over one document (1..6 sheets x 1..6 tables): add_sheet/add_table named, "
    "unnamed, explicit case-variant duplicates, names that look generated ('Table 3', 'sheet 2'), empty and non-ASCII "
    "names; renames to non-colliding names; lookups by every int in [-2n-1, 2n+1], by name, `in`, len, iteration; "
    "save+reopen at any point. Oracle: ordered-name model; siblings unique ignoring case; unnamed adds fresh and of the "
    "documented series; duplicates refused with IndexError and nothing changed; c[name].name == name; c[i] agrees with "
    "iteration order and raises IndexError outside [-n, n); reopened names/order equal. Non-trivial: history with a "
    "refusal, an unnamed add after a rename, an out-of-range index, or a reopen after an add; distinct by op log."
)
ASSUMPTIONS = [
    "renaming onto a sibling's name (ignoring case) is not generated: the statement does not cover it",
    "an unnamed add must be fresh and match 'Sheet N' / 'Table N'; which N is not prescribed",
]

NAME_POOL = ["Table 1", "Table 2", "Table 3", "table 2", "TABLE 1", "Sheet 1", "Sheet 2", "sheet 2", "SHEET 3", "Sheet 3",
             "", " ", "Ünï", "ünï", "表", "a", "A", "Data", "data", "Table 10", "Sheet 10", "x::y", "it's", "ß", "SS"]
names = st.sampled_from(NAME_POOL) | st.text(max_size=6)


class CollExec(Exec):
    PROP = "C19"

    def __init__(self, ctx):
        super().__init__(ctx)
        from numbers_parser import Document

        self.Document = Document
        self.doc = Document()
        self.model = [["Sheet 1", ["Table 1"]]]
        self.flags = set()
        self.nsaves = 0

    # ---- observation
    def observed(self):
        return [[s.name, [t.name for t in s.tables]] for s in self.doc.sheets]

    def dims(self):
        return [[(t.num_rows, t.num_cols) for t in s.tables] for s in self.doc.sheets]

    def check_state(self, after):
        self.ctx.ev()
        obs = self.observed()
        if obs != self.model:
            self.fail(("names_differ", after), f"after {after}: document has {obs!r}, model has {self.model!r}")
        sheet_names = [s[0].lower() for s in obs]
        if len(set(sheet_names)) != len(sheet_names):
            self.fail(("duplicate_sheet",), f"sheets not unique ignoring case: {obs!r}")
        for s in obs:
            low = [t.lower() for t in s[1]]
            if len(set(low)) != len(low):
                self.fail(("duplicate_table",), f"tables not unique ignoring case in {s!r}")
        if len(self.doc.sheets) != len(self.model):
            self.fail(("len",), "len(sheets) disagrees with iteration")

    def container(self, sheet):
        if sheet is None:
            return self.doc.sheets, [s[0] for s in self.model], "sheet"
        return self.doc.sheets[sheet].tables, list(self.model[sheet][1]), "table"

    # ---- ops
    def op_add_sheet(self, name, table_name):
        low = [s[0].lower() for s in self.model]
        before, dims = self.observed(), self.dims()
        kwargs = {}
        if table_name == "<explicit None>":
            kwargs["table_name"] = table_name = None   # an unnamed first table, asked for explicitly (the signature allows None)
        elif table_name is not None:
            kwargs["table_name"] = table_name
        if name is not None and name.lower() in low:
            self.flags.add("refusal")
            try:
                self.doc.add_sheet(name, **kwargs)
            except IndexError:
                if self.observed() != before or self.dims() != dims:
                    self.fail(("refusal_changed_document", "sheet"), f"refused add_sheet({name!r}) changed the document")
                self.check_state("refused add_sheet")
                return
            self.fail(("duplicate_accepted", "sheet"), f"add_sheet({name!r}) accepted although {before!r} has it ignoring case")
        self.doc.add_sheet(name, **kwargs)
        new = self.doc.sheets[len(self.model)].name
        if name is None:
            if "renamed" in self.flags:
                self.flags.add("unnamed_after_rename")
            if new.lower() in low:
                self.fail(("auto_name_not_fresh", "sheet"), f"add_sheet() chose {new!r}, already present in {before!r}")
            if not re.fullmatch(r"Sheet [1-9][0-9]*", new):
                self.fail(("auto_name_series", "sheet"), f"add_sheet() chose {new!r}, not of the series 'Sheet N'")
        elif new != name:
            self.fail(("wrong_name", "sheet"), f"add_sheet({name!r}) produced a sheet named {new!r}")
        tname = self.doc.sheets[len(self.model)].tables[0].name
        if tname != (table_name if table_name is not None else "Table 1"):
            self.fail(("wrong_name", "first_table"), f"add_sheet(..., table_name={table_name!r}) produced a first table named {tname!r}")
        self.model.append([new, [table_name if table_name is not None else "Table 1"]])
        self.flags.add("added")
        self.check_state("add_sheet")

    def op_add_table(self, sheet, name):
        low = [t.lower() for t in self.model[sheet][1]]
        before, dims = self.observed(), self.dims()
        sh = self.doc.sheets[sheet]
        if name is not None and name.lower() in low:
            self.flags.add("refusal")
            try:
                sh.add_table(name)
            except IndexError:
                if self.observed() != before or self.dims() != dims:
                    self.fail(("refusal_changed_document", "table"), f"refused add_table({name!r}) changed the document")
                self.check_state("refused add_table")
                return
            self.fail(("duplicate_accepted", "table"), f"add_table({name!r}) accepted although {before[sheet]!r} has it ignoring case")
        ret = sh.add_table(name)
        new = sh.tables[len(self.model[sheet][1])].name
        if ret.name != new:
            self.fail(("returned_table",), f"add_table returned table {ret.name!r}, last table is {new!r}")
        if name is None:
            if "renamed" in self.flags:
                self.flags.add("unnamed_after_rename")
            if new.lower() in low:
                self.fail(("auto_name_not_fresh", "table"), f"add_table() chose {new!r}, already present in {before[sheet]!r}")
            if not re.fullmatch(r"Table [1-9][0-9]*", new):
                self.fail(("auto_name_series", "table"), f"add_table() chose {new!r}, not of the series 'Table N'")
        elif new != name:
            self.fail(("wrong_name", "table"), f"add_table({name!r}) produced a table named {new!r}")
        self.model[sheet][1].append(new)
        self.flags.add("added")
        self.check_state("add_table")

    def op_rename(self, sheet, table, name):
        if table is None:
            self.doc.sheets[sheet].name = name
            self.model[sheet][0] = name
        else:
            self.doc.sheets[sheet].tables[table].name = name
            self.model[sheet][1][table] = name
        self.flags.add("renamed")
        self.check_state("rename")

    def op_lookup_index(self, sheet, index):
        cont, model_names, _kind = self.container(sheet)
        n = len(model_names)
        self.ctx.ev()
        listed = [x.name for x in cont]
        if listed != model_names:
            self.fail(("iteration",), f"iteration gives {listed!r}, model {model_names!r}")
        if len(cont) != n:
            self.fail(("len",), f"len {len(cont)} != {n}")
        if -n <= index < n:
            got = cont[index].name
            if got != model_names[index]:
                self.fail(("index_wrong_item",), f"[{index}] -> {got!r}, iteration order says {model_names[index]!r}")
        else:
            self.flags.add("oob_index")
            try:
                got = cont[index]
            except IndexError:
                return
            self.fail(("index_out_of_range_accepted",), f"[{index}] on {n} items returned {got.name!r} instead of raising IndexError")

    def op_lookup_name(self, sheet, name):
        cont, model_names, _kind = self.container(sheet)
        self.ctx.ev()
        present_exact = name in model_names
        present_ci = name.lower() in [m.lower() for m in model_names]
        if (name in cont) != present_ci:
            self.fail(("contains",), f"{name!r} in container -> {name in cont}, names {model_names!r}")
        if present_exact:
            got = cont[name]
            if got.name != name:
                self.fail(("name_lookup_wrong_item",), f"[{name!r}] returned item named {got.name!r}")
            if got is not cont[model_names.index(name)]:
                self.fail(("name_lookup_identity",), f"[{name!r}] is not the item at its index")
        else:
            try:
                got = cont[name]
            except (KeyError, IndexError):
                return
            self.fail(("name_lookup_phantom",), f"[{name!r}] returned {got.name!r} although no item has exactly that name")

    def op_reopen(self):
        path = self.tmpdir() / f"c19_{self.nsaves}.numbers"
        self.nsaves += 1
        self.doc.save(path)
        self.check_state("save")
        self.doc = self.Document(path)
        if "added" in self.flags:
            self.flags.add("reopen_after_add")
        self.check_state("reopen")

    def finish(self):
        interesting = self.flags & {"refusal", "unnamed_after_rename", "oob_index", "reopen_after_add"}
        for f in sorted(self.flags):
            self.ctx.count("hist_" + f)
        self.ctx.count("histories")
        if interesting:
            self.ctx.nt(self.log)
        self.ctx.sample({"ops": self.log[:12], "final": self.model}, every=23)


def make_machine(ctx):
    class Machine(RuleBasedStateMachine):
        def __init__(self):
            super().__init__()
            self.ex = CollExec(ctx)
            self.dead = False

        def step(self, _op, **args):
            if self.dead:
                return
            try:
                self.ex.apply(_op, **args)
            except _Abort:
                self.dead = True

        def nsheets(self):
            return len(self.ex.model)

        @rule(name=st.none() | names, table_name=st.none() | st.sampled_from(["Table 1", "T", "table 9", "<explicit None>"]))
        def add_sheet(self, name, table_name):
            if self.nsheets() >= 6 and not (name is not None and name.lower() in [s[0].lower() for s in self.ex.model]):
                return
            self.step("add_sheet", name=name, table_name=table_name)

        @rule(sheet=st.integers(0, 50), name=st.none() | names)
        def add_table(self, sheet, name):
            sheet %= self.nsheets()
            tabs = self.ex.model[sheet][1]
            if len(tabs) >= 6 and not (name is not None and name.lower() in [t.lower() for t in tabs]):
                return
            self.step("add_table", sheet=sheet, name=name)

        @rule(sheet=st.integers(0, 50), k=st.integers(1, 8), table=st.booleans(), case=st.sampled_from(["title", "lower", "upper"]))
        def add_lookalike(self, sheet, k, table, case):
            """Explicit names that look like generated ones ('Table 3', 'sheet 2')."""
            sheet %= self.nsheets()
            n = len(self.ex.model[sheet][1]) if table else self.nsheets()
            k = 1 + (k % (n + 2))
            name = ("Table %d" if table else "Sheet %d") % k
            name = {"title": name, "lower": name.lower(), "upper": name.upper()}[case]
            if n >= 6:
                return
            if table:
                self.step("add_table", sheet=sheet, name=name)
            else:
                self.step("add_sheet", name=name, table_name=None)

        @rule(sheet=st.integers(0, 50), pick=st.integers(0, 50), variant=st.sampled_from(["same", "upper", "lower", "swap"]), table=st.booleans())
        def add_duplicate(self, sheet, pick, variant, table):
            sheet %= self.nsheets()
            pool = self.ex.model[sheet][1] if table else [s[0] for s in self.ex.model]
            base = pool[pick % len(pool)]
            name = {"same": base, "upper": base.upper(), "lower": base.lower(), "swap": base.swapcase()}[variant]
            if name.lower() not in [p.lower() for p in pool]:
                return  # case mapping changed the folded form (e.g. 'ß'); not a duplicate by lower()
            if table:
                self.step("add_table", sheet=sheet, name=name)
            else:
                self.step("add_sheet", name=name, table_name=None)

        @rule(sheet=st.integers(0, 50), table=st.none() | st.integers(0, 50), name=names)
        def rename(self, sheet, table, name):
            sheet %= self.nsheets()
            if table is None:
                others = [s[0].lower() for i, s in enumerate(self.ex.model) if i != sheet]
            else:
                table %= len(self.ex.model[sheet][1])
                others = [t.lower() for i, t in enumerate(self.ex.model[sheet][1]) if i != table]
            if name.lower() in others:
                return
            self.step("rename", sheet=sheet, table=table, name=name)

        @rule(sheet=st.none() | st.integers(0, 50), index=st.integers(-14, 14))
        def lookup_index(self, sheet, index):
            if sheet is not None:
                sheet %= self.nsheets()
            n = self.nsheets() if sheet is None else len(self.ex.model[sheet][1])
            if not (-2 * n - 1 <= index <= 2 * n + 1):
                index = (index % (4 * n + 3)) - 2 * n - 1
            self.step("lookup_index", sheet=sheet, index=index)

        @rule(sheet=st.none() | st.integers(0, 50), name=names, pick=st.none() | st.integers(0, 50), variant=st.sampled_from(["same", "upper", "lower"]))
        def lookup_name(self, sheet, name, pick, variant):
            if sheet is not None:
                sheet %= self.nsheets()
            pool = [s[0] for s in self.ex.model] if sheet is None else self.ex.model[sheet][1]
            if pick is not None:
                base = pool[pick % len(pool)]
                name = {"same": base, "upper": base.upper(), "lower": base.lower()}[variant]
            self.step("lookup_name", sheet=sheet, name=name)

        @rule()
        def reopen(self):
            if self.ex.nsaves >= 2:
                return
            self.step("reopen")

        def teardown(self):
            try:
                if not self.dead:
                    self.ex.finish()
            finally:
                self.ex.close()

    return Machine


def tasks(tier, seed):
    nshard = 16
    per = 20 if tier == "quick" else 300
    t = [("machine", {"n": per, "steps": 20 if tier == "quick" else 30, "seed": derive_seed(seed, "c19", k)}) for k in range(nshard)]
    t.append(("indices", {}))
    return t


def run_task(ctx, lane, **kw):
    if lane == "machine":
        run_machine(ctx, make_machine(ctx), kw["n"], kw["steps"], kw["seed"], exec_factory=CollExec)
    elif lane == "indices":
        # enumerated: every index in [-2n-1, 2n+1] for n = 1..4 sheets and tables
        ex = CollExec(ctx)
        try:
            for n in range(1, 5):
                if n > 1:
                    ex.apply("add_sheet", name=None, table_name=None)
                    ex.apply("add_table", sheet=0, name=None)
                for idx in range(-2 * n - 1, 2 * n + 2):
                    ex.apply("lookup_index", sheet=None, index=idx)
                    ex.apply("lookup_index", sheet=0, index=idx)
                    ctx.nt_enum(2)
            ex.finish()
        except _Abort:
            pass
        finally:
            ex.close()


def check_case(ctx, case):
    CollExec(ctx).replay(case["ops"])
