"""C03  Any edit history leaves each table equal to a plain grid, before and after save."""
import itertools
import warnings

from hypothesis import strategies as st
from hypothesis.stateful import RuleBasedStateMachine, rule

from vf import fixtures, gens
from vf.core import derive_seed, run_machine
from vf.hist import Exec, _Abort

ID = "C03"
RULE = (
    "Hypothesis rule-based state machine over up to 3 simultaneously open documents (new ones of shape 1..6 x 1..6, "
    "sometimes 255..258 rows; loaded small fixtures), several sheets/tables each. Rules: write (C01 values, positions "
    "inside and outside), add_row/add_column(count 1..3, start None|index, default None|value), delete_row/"
    "delete_column(count, start None|index) within documented preconditions, add_table, add_sheet, rename, save "
    "(twice, + reopen, optionally continuing on the reopened handle). Bounded-exhaustive lane: every history of length "
    "<=3 (quick; <=4 thorough on 2x2) over a 31-letter alphabet {write, add_row, add_column, delete_row, delete_column} "
    "x {first, middle, last, end/beyond} x count {1,2} on 2x2 and 3x3 tables. Oracle: list-of-lists model per table; "
    "after every step dimensions, rows(values_only=True) and every cell's (row, col) equal the model for *all* open "
    "tables/documents (isolation); save leaves the open document unchanged, can be repeated, and the file reopens to "
    "the model. Non-trivial: a structural edit followed by a read of a moved cell, or a save after an edit; distinct "
    "by op log."
)
ASSUMPTIONS = [
    "start within [0, n), count >= 1, start+count <= n, deletion leaves >= max(1, header count) rows/columns: the docs do "
    "not define other cases, so they are not generated",
    "merged regions are left to C12 and styles to C15; loaded fixtures are ones without merges",
]
EXHAUSTIVE = {"quick": False, "thorough": False}
EXHAUSTIVE_NOTE = "every history of length <=3 (quick) / <=4 (thorough, 2x2) over the 31-letter alphabet on tiny tables"

LOADABLE = ["issue-3.numbers", "issue-4.numbers", "test-save-1.numbers", "issue-56.numbers", "test-issue-76.numbers", "mapping.numbers"]


def eq(a, b):
    if a is None or b is None:
        return a is None and b is None
    if isinstance(a, bool) != isinstance(b, bool):
        return False
    return a == b


class GridExec(Exec):
    PROP = "C03"

    def __init__(self, ctx):
        super().__init__(ctx)
        from numbers_parser import Document

        self.Document = Document
        self.docs = []  # {"doc":..., "model": [[sheet_name, [{"name":, "grid":, "hr":, "hc":}]]]}
        self.flags = set()
        self.nsaves = 0
        self.dirty = False

    # ---- helpers
    def table(self, d, s, t):
        return self.docs[d]["doc"].sheets[s].tables[t], self.docs[d]["model"][s][1][t]

    def read_model(self, doc):
        with warnings.catch_warnings():
            warnings.simplefilter("ignore")
            return [[sh.name, [{"name": t.name, "grid": [list(r) for r in t.rows(values_only=True)], "hr": t.num_header_rows, "hc": t.num_header_cols}
                               for t in sh.tables]] for sh in doc.sheets]

    def check_table(self, table, m, where, moved=False):
        grid = m["grid"]
        rows, cols = len(grid), len(grid[0]) if grid else 0
        self.ctx.ev()
        if (table.num_rows, table.num_cols) != (rows, cols):
            self.fail(("dimensions", where), f"{where}: table is {table.num_rows}x{table.num_cols}, model {rows}x{cols}")
        data = table.rows()
        if len(data) != rows or any(len(r) != cols for r in data):
            self.fail(("rows_shape", where), f"{where}: rows() has shape {len(data)}x{[len(r) for r in data][:4]}, model {rows}x{cols}")
        vals = table.rows(values_only=True)
        for r in range(rows):
            for c in range(cols):
                cell = data[r][c]
                if (cell.row, cell.col) != (r, c):
                    self.fail(("cell_position", where), f"{where}: cell at [{r}][{c}] reports position ({cell.row},{cell.col})")
                if not eq(vals[r][c], grid[r][c]):
                    self.fail(("value", where), f"{where}: cell ({r},{c}) is {vals[r][c]!r}, model {grid[r][c]!r}")

    def check_all(self, where):
        for di, d in enumerate(self.docs):
            doc, model = d["doc"], d["model"]
            names = [[sh.name, [t.name for t in sh.tables]] for sh in doc.sheets]
            want = [[s[0], [t["name"] for t in s[1]]] for s in model]
            if names != want:
                self.fail(("names", where), f"{where}: doc {di} names {names!r}, model {want!r}")
            for si, sh in enumerate(doc.sheets):
                for ti, t in enumerate(sh.tables):
                    self.check_table(t, model[si][1][ti], where)

    # ---- ops
    def op_new_doc(self, rows, cols, hr, hc):
        doc = self.Document(num_rows=rows, num_cols=cols, num_header_rows=hr, num_header_cols=hc)
        self.docs.append({"doc": doc, "model": [["Sheet 1", [{"name": "Table 1", "grid": [[None] * cols for _ in range(rows)], "hr": hr, "hc": hc}]]]})
        self.check_all("new_doc")

    def op_load_doc(self, fixture):
        with warnings.catch_warnings():
            warnings.simplefilter("ignore")
            doc = self.Document(fixtures.DATA / fixture)
        self.docs.append({"doc": doc, "model": self.read_model(doc)})
        self.flags.add("loaded")
        self.check_all("load_doc")

    def op_write(self, d, s, t, row, col, value):
        table, m = self.table(d, s, t)
        v = gens.from_json(value)
        grid = m["grid"]
        rows, cols = len(grid), len(grid[0])
        with warnings.catch_warnings():
            warnings.simplefilter("ignore")
            table.write(row, col, v)
        if row >= rows:
            grid.extend([None] * cols for _ in range(row + 1 - rows))
            self.flags.add("grew")
        if col >= cols:
            for g in grid:
                g.extend([None] * (col + 1 - cols))
            self.flags.add("grew")
        grid[row][col] = v
        self.dirty = True
        self.check_all("write")

    def op_add_row(self, d, s, t, count, start, default):
        table, m = self.table(d, s, t)
        grid = m["grid"]
        cols = len(grid[0])
        dv = None if default is None else gens.from_json(default)
        if dv is None:
            table.add_row(count, start)
        else:
            table.add_row(count, start, dv)
        at = len(grid) if start is None else start
        grid[at:at] = [[dv] * cols for _ in range(count)]
        self.flags.add("structural")
        if start is not None:
            self.flags.add("moved")
        self.dirty = True
        self.check_all("add_row")

    def op_add_column(self, d, s, t, count, start, default):
        table, m = self.table(d, s, t)
        grid = m["grid"]
        dv = None if default is None else gens.from_json(default)
        if dv is None:
            table.add_column(count, start)
        else:
            table.add_column(count, start, dv)
        at = len(grid[0]) if start is None else start
        for g in grid:
            g[at:at] = [dv] * count
        self.flags.add("structural")
        if start is not None:
            self.flags.add("moved")
        self.dirty = True
        self.check_all("add_column")

    def op_delete_row(self, d, s, t, count, start):
        table, m = self.table(d, s, t)
        grid = m["grid"]
        table.delete_row(count, start)
        if start is None:
            del grid[len(grid) - count:]
        else:
            del grid[start:start + count]
            self.flags.add("moved")
        self.flags.add("structural")
        self.dirty = True
        self.check_all("delete_row")

    def op_delete_column(self, d, s, t, count, start):
        table, m = self.table(d, s, t)
        grid = m["grid"]
        table.delete_column(count, start)
        for g in grid:
            if start is None:
                del g[len(g) - count:]
            else:
                del g[start:start + count]
        if start is not None:
            self.flags.add("moved")
        self.flags.add("structural")
        self.dirty = True
        self.check_all("delete_column")

    def op_add_table(self, d, s, name, rows, cols):
        doc = self.docs[d]["doc"]
        doc.sheets[s].add_table(name, None, None, rows, cols)
        self.docs[d]["model"][s][1].append({"name": name, "grid": [[None] * cols for _ in range(rows)], "hr": 1, "hc": 1})
        self.flags.add("added_container")
        self.dirty = True
        self.check_all("add_table")

    def op_add_sheet(self, d, name, rows, cols):
        doc = self.docs[d]["doc"]
        doc.add_sheet(name, "Table 1", rows, cols)
        self.docs[d]["model"].append([name, [{"name": "Table 1", "grid": [[None] * cols for _ in range(rows)], "hr": 1, "hc": 1}]])
        self.flags.add("added_container")
        self.dirty = True
        self.check_all("add_sheet")

    def op_rename(self, d, s, t, name):
        doc = self.docs[d]["doc"]
        if t is None:
            doc.sheets[s].name = name
            self.docs[d]["model"][s][0] = name
        else:
            doc.sheets[s].tables[t].name = name
            self.docs[d]["model"][s][1][t]["name"] = name
        self.check_all("rename")

    def op_save(self, d, switch):
        doc = self.docs[d]["doc"]
        p1 = self.tmpdir() / f"s{self.nsaves}a.numbers"
        p2 = self.tmpdir() / f"s{self.nsaves}b.numbers"
        self.nsaves += 1
        with warnings.catch_warnings():
            warnings.simplefilter("ignore")
            doc.save(p1)
            self.check_all("after_save")  # saving has no observable effect on the open document
            doc.save(p2)
            self.check_all("after_second_save")
            re1 = self.Document(p1)
            re2 = self.Document(p2)
        for label, re in (("reopened_first_save", re1), ("reopened_second_save", re2)):
            model = self.docs[d]["model"]
            names = [[sh.name, [t.name for t in sh.tables]] for sh in re.sheets]
            want = [[s[0], [t["name"] for t in s[1]]] for s in model]
            if names != want:
                self.fail(("names", label), f"{label}: names {names!r}, model {want!r}")
            for si, sh in enumerate(re.sheets):
                for ti, t in enumerate(sh.tables):
                    self.check_table(t, model[si][1][ti], label)
        if self.dirty:
            self.flags.add("save_after_edit")
        if switch:
            self.docs[d]["doc"] = re2
            self.flags.add("continued_on_reopened")
        self.check_all("save")

    def finish(self):
        for f in sorted(self.flags):
            self.ctx.count("hist_" + f)
        self.ctx.count("histories")
        if {"moved", "save_after_edit"} & self.flags:
            self.ctx.nt(self.log)
        self.ctx.sample({"ops": self.log[:10], "n_ops": len(self.log)}, every=29)


# ------------------------------------------------------------------------------------------
# machine

small_values = gens.simple_values | gens.cell_values


def make_machine(ctx, big=False):
    class Machine(RuleBasedStateMachine):
        def __init__(self):
            super().__init__()
            self.ex = GridExec(ctx)
            self.dead = False

        def step(self, _op, **args):
            if self.dead:
                return False
            try:
                self.ex.apply(_op, **args)
                return True
            except _Abort:
                self.dead = True
                return False

        def pick(self, data_d, data_s, data_t):
            """resolve (doc, sheet, table) indices against the current model"""
            if not self.ex.docs:
                self.step("new_doc", rows=3, cols=3, hr=1, hc=1)
            if self.dead:
                return None
            d = data_d % len(self.ex.docs)
            model = self.ex.docs[d]["model"]
            s = data_s % len(model)
            t = data_t % len(model[s][1])
            return d, s, t

        @rule(rows=st.integers(1, 6) | (st.sampled_from([255, 256, 257, 258]) if big else st.integers(1, 6)), cols=st.integers(1, 6), hr=st.integers(0, 1), hc=st.integers(0, 1))
        def new_doc(self, rows, cols, hr, hc):
            if len(self.ex.docs) >= 3:
                return
            self.step("new_doc", rows=rows, cols=cols, hr=min(hr, rows), hc=min(hc, cols))

        @rule(fx=st.sampled_from(LOADABLE))
        def load_doc(self, fx):
            if len(self.ex.docs) >= 3:
                return
            self.step("load_doc", fixture=fx)

        @rule(d=st.integers(0, 9), s=st.integers(0, 9), t=st.integers(0, 9), row=st.integers(0, 40), col=st.integers(0, 40), beyond=st.integers(0, 9), v=small_values)
        def write(self, d, s, t, row, col, beyond, v):
            p = self.pick(d, s, t)
            if p is None:
                return
            d, s, t = p
            grid = self.ex.docs[d]["model"][s][1][t]["grid"]
            rows, cols = len(grid), len(grid[0])
            if beyond == 0 and rows < 300:
                r, c = rows + row % 3, col % cols
            elif beyond == 1:
                r, c = row % rows, cols + col % 3
            else:
                r, c = row % rows, col % cols
            self.step("write", d=d, s=s, t=t, row=r, col=c, value=gens.to_json(v))

        @rule(d=st.integers(0, 9), s=st.integers(0, 9), t=st.integers(0, 9), k=st.integers(0, 10**6), how=st.integers(0, 2))
        def overwrite(self, d, s, t, k, how):
            """a second write to a cell that holds a value: the same value again, or a value of another type that Python's == equates
            with the one held (True/1/1.0, False/0/0.0, 7/7.0) - the grid must then hold the value written last, type included"""
            p = self.pick(d, s, t)
            if p is None:
                return
            d, s, t = p
            grid = self.ex.docs[d]["model"][s][1][t]["grid"]
            held = [(r, c) for r, row in enumerate(grid) for c, v in enumerate(row) if v is not None][:400]
            if not held:
                self.step("write", d=d, s=s, t=t, row=0, col=0, value=gens.to_json([True, 1, 0, False][k % 4]))
                return
            r, c = held[k % len(held)]
            v = grid[r][c]
            if isinstance(v, bool):
                new = [int(v), float(v), v][how]
            elif isinstance(v, (int, float)) and v in (0, 1):
                new = [bool(v), float(v) if isinstance(v, int) else int(v), v][how]
            elif isinstance(v, int) and abs(v) < 10**15:
                new = [float(v), v, v + 1][how]
            elif isinstance(v, float) and v.is_integer() and abs(v) < 10**15:
                new = [int(v), v, v][how]
            else:
                new = v
            self.ex.flags.add("overwrite_equal_value_other_type" if (new == v and type(new) is not type(v)) else "overwrite")
            self.step("write", d=d, s=s, t=t, row=r, col=c, value=gens.to_json(new))

        @rule(d=st.integers(0, 9), s=st.integers(0, 9), t=st.integers(0, 9), axis=st.sampled_from(["row", "column"]), count=st.integers(1, 3),
              start=st.none() | st.integers(0, 400), default=st.none() | small_values)
        def add(self, d, s, t, axis, count, start, default):
            p = self.pick(d, s, t)
            if p is None:
                return
            d, s, t = p
            grid = self.ex.docs[d]["model"][s][1][t]["grid"]
            n = len(grid) if axis == "row" else len(grid[0])
            if n > 300 and axis == "column":
                return
            if start is not None:
                start %= n
            self.step("add_" + axis, d=d, s=s, t=t, count=count, start=start, default=None if default is None else gens.to_json(default))

        @rule(d=st.integers(0, 9), s=st.integers(0, 9), t=st.integers(0, 9), axis=st.sampled_from(["row", "column"]), count=st.integers(1, 3),
              start=st.none() | st.integers(0, 400))
        def delete(self, d, s, t, axis, count, start):
            p = self.pick(d, s, t)
            if p is None:
                return
            d, s, t = p
            m = self.ex.docs[d]["model"][s][1][t]
            grid = m["grid"]
            n = len(grid) if axis == "row" else len(grid[0])
            hdr = m["hr"] if axis == "row" else m["hc"]
            if n - count < max(1, hdr):
                return
            if start is not None:
                start %= n
                if start + count > n:
                    return
            self.step("delete_" + axis, d=d, s=s, t=t, count=count, start=start)

        @rule(d=st.integers(0, 9), s=st.integers(0, 9), rows=st.integers(1, 5), cols=st.integers(1, 5), n=st.integers(0, 99))
        def add_table(self, d, s, rows, cols, n):
            p = self.pick(d, s, 0)
            if p is None:
                return
            d, s, _ = p
            model = self.ex.docs[d]["model"]
            if len(model[s][1]) >= 3:
                return
            name = f"New {n}"
            if name.lower() in [t["name"].lower() for t in model[s][1]]:
                return
            self.step("add_table", d=d, s=s, name=name, rows=rows, cols=cols)

        @rule(d=st.integers(0, 9), rows=st.integers(1, 5), cols=st.integers(1, 5), n=st.integers(0, 99))
        def add_sheet(self, d, rows, cols, n):
            p = self.pick(d, 0, 0)
            if p is None:
                return
            d = p[0]
            model = self.ex.docs[d]["model"]
            if len(model) >= 3:
                return
            name = f"Extra {n}"
            if name.lower() in [s[0].lower() for s in model]:
                return
            self.step("add_sheet", d=d, name=name, rows=rows, cols=cols)

        @rule(d=st.integers(0, 9), s=st.integers(0, 9), t=st.none() | st.integers(0, 9), n=st.integers(0, 999))
        def rename(self, d, s, t, n):
            p = self.pick(d, s, 0 if t is None else t)
            if p is None:
                return
            d, s, tt = p
            model = self.ex.docs[d]["model"]
            name = f"Renamed {n}"
            if t is None:
                if name.lower() in [x[0].lower() for x in model]:
                    return
                self.step("rename", d=d, s=s, t=None, name=name)
            else:
                if name.lower() in [x["name"].lower() for x in model[s][1]]:
                    return
                self.step("rename", d=d, s=s, t=tt, name=name)

        @rule(d=st.integers(0, 9), switch=st.booleans())
        def save(self, d, switch):
            if not self.ex.docs or self.ex.nsaves >= 3:
                return
            self.step("save", d=d % len(self.ex.docs), switch=switch)

        def teardown(self):
            try:
                if not self.dead:
                    self.ex.finish()
            finally:
                self.ex.close()

    return Machine


# ------------------------------------------------------------------------------------------
# bounded-exhaustive lane

POS = ["first", "middle", "last"]


def alphabet():
    ops = []
    for rp in ("first", "last", "beyond"):
        ops.append(("write", rp, rp))
    ops.append(("write", "first", "beyond"))
    for axis in ("row", "column"):
        for start in ("first", "middle", "end"):
            for count in (1, 2):
                ops.append(("add", axis, start, count, False))
        ops.append(("add", axis, "first", 1, True))
        ops.append(("add", axis, "end", 2, True))
        for start in ("first", "last", "end"):
            for count in (1, 2):
                ops.append(("delete", axis, start, count))
    return ops


def resolve(letter, rows, cols, step):
    """-> (op_name, args) or None when the documented precondition does not hold"""
    def pos(p, n):
        return {"first": 0, "middle": n // 2, "last": n - 1, "beyond": n, "end": None}[p]

    if letter[0] == "write":
        return "write", {"row": pos(letter[1], rows), "col": pos(letter[2], cols), "value": gens.to_json(100 + step)}
    if letter[0] == "add":
        _, axis, start, count, default = letter
        n = rows if axis == "row" else cols
        return "add_" + axis, {"count": count, "start": pos(start, n), "default": gens.to_json(f"d{step}") if default else None}
    _, axis, start, count = letter
    n = rows if axis == "row" else cols
    st_ = pos(start, n)
    if n - count < 1:
        return None
    if st_ is not None and st_ + count > n:
        return None
    return "delete_" + axis, {"count": count, "start": st_}


def feasible(shape, letters):
    """Dimension-only dry run: does every letter meet its documented precondition?"""
    rows, cols = shape
    for step, letter in enumerate(letters):
        res = resolve(letter, rows, cols, step)
        if res is None:
            return False
        name, a = res
        if name == "write":
            rows, cols = max(rows, a["row"] + 1), max(cols, a["col"] + 1)
        elif name == "add_row":
            rows += a["count"]
        elif name == "add_column":
            cols += a["count"]
        elif name == "delete_row":
            rows -= a["count"]
        else:
            cols -= a["count"]
    return True


def canonical_ops(shape, letters, save):
    """The stand-alone op log of one short history on a fresh document."""
    rows, cols = shape
    ops = [{"op": "new_doc", "rows": rows, "cols": cols, "hr": 0, "hc": 0}]
    k = 0
    for r in range(rows):
        for c in range(cols):
            ops.append({"op": "write", "d": 0, "s": 0, "t": 0, "row": r, "col": c, "value": gens.to_json(k)})
            k += 1
    for step, letter in enumerate(letters):
        name, args = resolve(letter, rows, cols, step)
        ops.append({"op": name, "d": 0, "s": 0, "t": 0, **args})
        if name == "write":
            rows, cols = max(rows, args["row"] + 1), max(cols, args["col"] + 1)
        elif name == "add_row":
            rows += args["count"]
        elif name == "add_column":
            cols += args["count"]
        elif name == "delete_row":
            rows -= args["count"]
        else:
            cols -= args["count"]
    if save:
        ops.append({"op": "save", "d": 0, "switch": False})
    return ops


class ShortRunner:
    """Runs many short histories on ONE document (creating a document costs 30 ms, an edit 10 us): each
    history first brings the table back to its seeded start shape through the same public operations,
    all of them checked against the model like any other step.  A failure is first re-tried stand-alone
    on a fresh document so that the replay file is the short history itself."""

    def __init__(self, ctx, shape):
        self.ctx, self.shape = ctx, tuple(shape)
        self.ex = None

    def fresh(self):
        if self.ex is not None:
            self.ex.close()
        self.ex = GridExec(self.ctx)
        self.ex.apply("new_doc", rows=self.shape[0], cols=self.shape[1], hr=0, hc=0)

    def reset_table(self):
        ex = self.ex
        grid = ex.docs[0]["model"][0][1][0]["grid"]
        rows, cols = len(grid), len(grid[0])
        if rows > 1:
            ex.apply("delete_row", d=0, s=0, t=0, count=rows - 1, start=None)
        if cols > 1:
            ex.apply("delete_column", d=0, s=0, t=0, count=cols - 1, start=None)
        if self.shape[0] > 1:
            ex.apply("add_row", d=0, s=0, t=0, count=self.shape[0] - 1, start=None, default=None)
        if self.shape[1] > 1:
            ex.apply("add_column", d=0, s=0, t=0, count=self.shape[1] - 1, start=None, default=None)
        k = 0
        for r in range(self.shape[0]):
            for c in range(self.shape[1]):
                ex.apply("write", d=0, s=0, t=0, row=r, col=c, value=gens.to_json(k))
                k += 1

    def run(self, letters, save):
        from vf.core import Ctx, Violation

        if not feasible(self.shape, letters):
            self.ctx.count("short_precondition_skip")
            return False
        try:
            if self.ex is None or len(self.ex.log) > 20000 or self.ex.nsaves >= 3:
                self.fresh()
                if self.ex.nsaves:
                    self.ex.nsaves = 0
            self.reset_table()
            for op in canonical_ops(self.shape, letters, save)[1 + self.shape[0] * self.shape[1]:]:
                op = dict(op)
                self.ex.apply(op.pop("op"), **op)
            self.ctx.count("short_histories")
            return True
        except Violation as v:
            # stand-alone reproduction on a fresh document?
            alone = canonical_ops(self.shape, letters, save)
            c2 = Ctx(self.ctx.prop_id, self.ctx.tier, self.ctx.seed, findings=self.ctx.findings)
            try:
                GridExec(c2).replay(alone)
            except Violation as v2:
                raise v2 from None
            v.case["note"] = "needs the preceding histories on the same document"
            raise v
        except _Abort:
            self.ex = None
            return False

    def close(self):
        if self.ex is not None:
            self.ex.close()


def tasks(tier, seed):
    t = []
    nsh = 16
    per = 10 if tier == "quick" else 190
    for k in range(nsh):
        t.append(("machine", {"n": per, "steps": 25 if tier == "quick" else 50, "seed": derive_seed(seed, "c03", k), "big": False}))
    for k in range(2 if tier == "quick" else 8):
        t.append(("machine", {"n": 2 if tier == "quick" else 10, "steps": 15, "seed": derive_seed(seed, "c03big", k), "big": True}))
    alpha = alphabet()
    for i in range(len(alpha)):
        t.append(("short", {"first": i, "maxlen": 3, "shape": [2, 2], "save_mod": 20}))
        t.append(("short", {"first": i, "maxlen": 2 if tier == "quick" else 3, "shape": [3, 3], "save_mod": 20}))
        if tier == "thorough":
            t.append(("short", {"first": i, "maxlen": 4, "shape": [2, 2], "save_mod": 50, "only_len": 4}))
    return t


def run_task(ctx, lane, **kw):
    if lane == "machine":
        run_machine(ctx, make_machine(ctx, kw["big"]), kw["n"], kw["steps"], kw["seed"], exec_factory=GridExec)
    elif lane == "short":
        alpha = alphabet()
        first = alpha[kw["first"]]
        n = 0
        runner = ShortRunner(ctx, kw["shape"])
        for length in range(1, kw["maxlen"] + 1):
            if kw.get("only_len") and length != kw["only_len"]:
                continue
            for rest in itertools.product(alpha, repeat=length - 1):
                letters = (first, *rest)
                n += 1
                done = runner.run(letters, save=(n % kw["save_mod"] == 0))
                if done and any(l[0] in ("add", "delete") for l in letters):
                    ctx.nt_enum(1)
                if n % 4001 == 1:
                    ctx.sample({"lane": "short", "shape": kw["shape"], "letters": [list(l) for l in letters]})
        runner.close()
    else:
        raise ValueError(lane)


def check_case(ctx, case):
    GridExec(ctx).replay(case["ops"])
