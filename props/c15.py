"""C15  Styles and borders applied through the API read back equal, now and after reload."""
import warnings

from hypothesis import Phase, strategies as st
from hypothesis.stateful import RuleBasedStateMachine, rule

from vf import snapshot
from vf.core import derive_seed, run_given, run_machine
from vf.hist import Exec, _Abort

ID = "C15"
RULE = (
    "Style histories: add_style with all 15 attributes over documented domains (font family from the library's family table, "
    "sizes/indents/inset as float32-representable floats 0.25..144, RGB 0..255^3, 5x3 alignments, bools, background colour or "
    "image with distinct file names; one style in four sets character attributes only); 1..6 styles applied to cells by object and by name, also to cells hidden by a merged range (open document and saved file must then agree); cells restyled, in histories and in a pair lane (a cell saved with style A is given style B on the same or the reopened handle and saved again); later attribute "
    "edits of an applied style; read-only access (style, border) of arbitrary cells before saving; save+reopen at any point "
    "continuing on either handle. Border histories: stroke sequences on 3..8 x 3..8 tables (side, start cell, length 1..n, width "
    "with <=2 decimals, colour, solid/dashes/dots/none) including overlapping, abutting, contained and superseding strokes, "
    "strokes on both cells sharing an edge, value writes in between, optional merged regions, reload at any point. Oracle styles: "
    "attribute model per cell (unstyled cells keep the attribute tuple they had before); oracle borders: last-writer-wins map from "
    "unit edges to strokes, every cell side == the model's stroke on that edge (None if none / interior to a merge), so each side "
    "equals the neighbour's opposite side; open view == reopened view; reading never changes the saved snapshot nor makes save "
    "raise. Non-trivial: >=2 styles or an edited style; >=2 strokes touching the same edge; distinct by op log."
)
ASSUMPTIONS = [
    "float style attributes are generated float32-representable (the file stores 32-bit floats); border widths carry <= 2 decimals",
    "calls the API documents as ignored (merged interior edges, RuntimeWarning) leave the edge model unchanged",
    "bg_image and bg_color are not combined in one style",
]

STYLE_ATTRS = ["alignment", "bg_color", "font_color", "font_size", "font_name", "bold", "italic", "strikethrough", "underline", "first_indent",
               "left_indent", "right_indent", "text_inset", "text_wrap", "name"]


def families():
    from numbers_parser.model import FONT_FAMILY_TO_NAME

    return sorted(FONT_FAMILY_TO_NAME)


def style_tuple(style):
    out = {}
    for a in STYLE_ATTRS:
        v = getattr(style, a)
        if a == "alignment":
            v = [int(v.horizontal), int(v.vertical)]
        elif a in ("bg_color", "font_color"):
            v = None if v is None else ([list(x) for x in v] if isinstance(v, list) else list(v))
        out[a] = v
    img = style.bg_image
    out["bg_image"] = None if img is None else [img.filename, bytes(img.data).hex()]
    return out


H = {"left": 0, "right": 1, "center": 2, "justified": 3, "auto": 4}
V = {"top": 0, "middle": 1, "bottom": 2}


class StyleExec(Exec):
    PROP = "C15"

    def __init__(self, ctx):
        super().__init__(ctx)
        from numbers_parser import Document

        self.Document = Document
        self.doc = None
        self.styles = []      # live Style objects (of the handle that created them)
        self.smodel = []      # expected attribute dicts
        self.cellstyle = {}   # (r,c) -> style index
        self.default = None
        self.flags = set()
        self.nsaves = 0
        self.handle_is_original = True

    @property
    def table(self):
        return self.doc.sheets[0].tables[0]

    def expected_for(self, rc):
        if rc in self.cellstyle:
            return self.cellstyle[rc]   # the (live, shared) expectation record of the style applied to this cell
        return self.default[rc]

    def check_view(self, table, where, reopened=False):
        for r in range(table.num_rows):
            for c in range(table.num_cols):
                self.ctx.ev()
                got = style_tuple(table.cell(r, c).style)
                if (r, c) in getattr(self, "hidden", ()):
                    # a cell hidden by a merge: no expectation of its own, but the open document and the saved file must agree
                    if reopened:
                        seen = getattr(self, "hidden_open", {}).get((r, c))
                        if seen is not None and seen != got:
                            diffs = [a for a in seen if got.get(a) != seen[a]]
                            self.fail(("style", "hidden_cell", *sorted(diffs)[:3]),
                                      f"{where}: hidden cell ({r},{c}) of a merged range: the open document reported { {a: seen[a] for a in diffs} }, the saved file reads { {a: got.get(a) for a in diffs} }")
                    else:
                        self.hidden_open = getattr(self, "hidden_open", {})
                        self.hidden_open[(r, c)] = got
                    continue
                want = self.expected_for((r, c))
                diffs = [a for a in want if got.get(a) != want[a]]
                if diffs:
                    kind = "styled" if (r, c) in self.cellstyle else "unstyled"
                    if (r, c) in getattr(self, "named_cells", ()):
                        self.fail(("named_style_on_reopened_handle", "reopened" if reopened else "open", *sorted(diffs)[:3]),
                                  f"{where}: cell ({r},{c}) was given a saved style by name on the reopened handle; the open document then reported "
                                  f"{ {a: want[a] for a in diffs} }, now it reads { {a: got.get(a) for a in diffs} }")
                        continue
                    self.fail(("style", "reopened" if reopened else "open", kind, *sorted(diffs)[:3]),
                              f"{where}: cell ({r},{c}) [{kind}] style differs in {diffs}: got { {a: got.get(a) for a in diffs} }, expected { {a: want[a] for a in diffs} }")

    # ---- ops
    def op_new(self, rows, cols):
        self.doc = self.Document(num_rows=rows, num_cols=cols, num_header_rows=0, num_header_cols=0)
        t = self.table
        k = 0
        for r in range(rows):
            for c in range(cols):
                t.write(r, c, ["text", 1.5, True][k % 3] if k % 4 else k)
                k += 1
        self.default = {(r, c): style_tuple(t.cell(r, c).style) for r in range(rows) for c in range(cols)}

    def op_add_style(self, spec):
        from numbers_parser import RGB, Alignment, BackgroundImage

        kw = dict(spec)
        exp = dict(self.default[(0, 0)])
        exp["bg_image"] = None
        for k_, v in spec.items():
            exp[k_] = v
        if "alignment" in kw:
            kw["alignment"] = Alignment(*kw["alignment"])
            exp["alignment"] = [H[spec["alignment"][0]], V[spec["alignment"][1]]]
        else:
            exp["alignment"] = [4, 0]
        for a in ("font_color", "bg_color"):
            if kw.get(a) is not None:
                if kw[a] and isinstance(kw[a][0], list):   # a list of colours: a gradient (documented for bg_color)
                    kw[a] = [RGB(*x) for x in kw[a]]
                    self.gradient = True
                else:
                    kw[a] = RGB(*kw[a])
        if "bg_image" in kw:
            name, hexdata = kw["bg_image"]
            kw["bg_image"] = BackgroundImage(bytes.fromhex(hexdata), name)
        defaults = {"bg_color": None, "font_color": [0, 0, 0], "font_size": 11.0, "font_name": "Helvetica Neue", "bold": False, "italic": False,
                    "strikethrough": False, "underline": False, "first_indent": 0, "left_indent": 0, "right_indent": 0, "text_inset": 4.0, "text_wrap": True}
        for a, d in defaults.items():
            if a not in spec:
                exp[a] = d
        style = self.doc.add_style(**kw)
        if "name" not in spec:
            exp["name"] = style.name
        self.styles.append(style)
        self.smodel.append(exp)
        if len(self.styles) >= 2:
            self.flags.add("multi_style")

    def op_apply(self, row, col, idx, by_name):
        style = self.styles[idx]
        if (row, col) in self.cellstyle and self.cellstyle[(row, col)] is not self.smodel[idx]:
            self.flags.add("restyled_cell_after_save" if self.nsaves else "restyled_cell")
        # by name only while the style still has the name it was added under: Document.styles lists a style under that name, and
        # what a name assigned later resolves to is not part of this property (the library refuses it with IndexError)
        by_name = by_name and idx not in getattr(self, "renamed", ())
        self.table.set_cell_style(row, col, self.smodel[idx]["name"] if by_name else style)
        self.cellstyle[(row, col)] = self.smodel[idx]
        if hasattr(self, "named_cells"):
            self.named_cells.discard((row, col))
        self.check_view(self.table, "apply")

    def op_merge(self, rect):
        """a merged range in the styled table: its hidden cells have no record in the file"""
        r0, c0, r1, c1 = rect
        from vf import a1

        self.table.merge_cells(a1.cell_name(r0, c0) + ":" + a1.cell_name(r1, c1))
        self.hidden = getattr(self, "hidden", set()) | {(r, c) for r in range(r0, r1 + 1) for c in range(c0, c1 + 1) if (r, c) != (r0, c0)}
        for rc in self.hidden:
            self.cellstyle.pop(rc, None)
        self.flags.add("merged_range")

    def op_apply_hidden(self, row, col, idx, by_name):
        """a style given to a cell hidden by a merge: whatever the open document reports for that cell afterwards is what the saved
        file must report too (the library refuses the call with a RuntimeWarning; the cell then keeps showing the default)"""
        with warnings.catch_warnings():
            warnings.simplefilter("ignore")
            self.table.set_cell_style(row, col, self.smodel[idx]["name"] if by_name and idx not in getattr(self, "renamed", ()) else self.styles[idx])
        self.flags.add("style_on_hidden_cell")
        self.check_view(self.table, "apply_hidden")

    def op_apply_saved_name(self, row, col, name):
        """On a reopened handle: a style that was saved with the document, applied by its name.  Whatever the open document
        then reports for the cell is what the saved file must report too."""
        self.table.set_cell_style(row, col, name)
        self.cellstyle[(row, col)] = style_tuple(self.table.cell(row, col).style)
        self.named_cells = getattr(self, "named_cells", set()) | {(row, col)}
        self.flags.add("saved_style_by_name_on_reopened_handle")
        self.check_view(self.table, "apply_saved_name")

    def op_edit(self, idx, attr, value):
        from numbers_parser import RGB, Alignment

        style = self.styles[idx]
        v = value
        if attr == "alignment":
            v = Alignment(*value)
            self.smodel[idx]["alignment"] = [H[value[0]], V[value[1]]]
        elif attr in ("font_color", "bg_color"):
            v = RGB(*value)
            self.smodel[idx][attr] = value
        elif attr == "bg_image":
            from numbers_parser import BackgroundImage

            v = BackgroundImage(bytes.fromhex(value[1]), value[0])
            self.smodel[idx][attr] = value
            self.flags.add("image_set_after_creation")
        else:
            self.smodel[idx][attr] = value
        setattr(style, attr, v)
        if attr == "name":
            self.renamed = getattr(self, "renamed", set()) | {idx}
        self.flags.add("edited_style")
        self.check_view(self.table, "edit")

    def op_read(self, cells, what):
        for r, c in cells:
            cell = self.table.cell(r, c)
            if what in ("style", "both"):
                _ = cell.style
            if what in ("border", "both"):
                _ = cell.border
        self.flags.add("read_before_save")

    def op_reopen(self, switch):
        path = self.tmpdir() / f"s{self.nsaves}.numbers"
        self.nsaves += 1
        with warnings.catch_warnings():
            warnings.simplefilter("ignore")
            try:
                self.doc.save(path)
            except IndexError as e:
                if "image already exists in document" in str(e):
                    # the documented refusal of a second picture under a file name already in use
                    self.ctx.count("image_name_refused_at_save")
                    raise _Abort() from None
                raise
            except AttributeError as e:
                if getattr(self, "gradient", False) and "'list' object has no attribute" in str(e):
                    self.fail(("gradient_bg_color_not_saved",), f"a style whose bg_color is a list of colours (gradient, as documented) makes save raise {type(e).__name__}: {e}")
                raise
            self.check_view(self.table, "after_save")
            re = self.Document(path)
        self.check_view(re.sheets[0].tables[0], "reopened", reopened=True)
        # styles listed in the reopened document under their names
        for m in list(self.smodel):
            if m["name"] not in re.styles:
                self.fail(("style", "missing_from_document_styles"), f"style {m['name']!r} is not listed in Document.styles after reload")
        if switch:
            # continue on the reopened handle.  Styles created on the old handle are frozen: cells keep the attributes
            # they were saved with (each its own copy of the record); only styles added on the new handle are edited further
            self.doc = re
            self.cellstyle = {rc: dict(m) for rc, m in self.cellstyle.items()}
            self.frozen_names = getattr(self, "frozen_names", set()) | {m["name"] for m in self.smodel}
            self.styles, self.smodel = [], []
            self.renamed = set()
            self.flags.add("continued_on_reopened")

    def finish(self):
        for f in sorted(self.flags):
            self.ctx.count("style_hist_" + f)
        self.ctx.count("style_histories")
        if {"multi_style", "edited_style"} & self.flags:
            self.ctx.nt(self.log)
        self.ctx.sample({"ops": self.log[:6], "n_ops": len(self.log)}, every=13)


f32 = st.integers(1, 576).map(lambda k: k / 4)
rgbs = st.tuples(st.integers(0, 255), st.integers(0, 255), st.integers(0, 255)).map(list)
aligns = st.tuples(st.sampled_from(list(H)), st.sampled_from(list(V))).map(list)


@st.composite
def style_specs(draw, fams, n):
    spec = {"name": f"VS {n}" if draw(st.booleans()) else draw(st.sampled_from(["Émphasis", "x y z", "Heading", "Red Text"])) + f" {n}"}
    if draw(st.integers(0, 3)) == 0:
        del spec["name"]
    # one style in four sets character attributes only: everything the cell itself carries (fill, alignment, indents, inset, wrap)
    # is left at its default, which is what replacing the style of an already styled cell must then show
    text_only = draw(st.integers(0, 3)) == 0
    opt = lambda cell_level=False: draw(st.booleans()) and not (cell_level and text_only)
    if opt(True):
        spec["alignment"] = draw(aligns)
    if opt(True):
        if draw(st.integers(0, 3)) == 0:
            data = bytes([137, 80, 78, 71, 13, 10, 26, 10]) + draw(st.binary(min_size=4, max_size=40))
            spec["bg_image"] = [f"img{n}_{draw(st.integers(0, 10**6))}.png", data.hex()]
        elif draw(st.integers(0, 11)) == 0:
            spec["bg_color"] = [draw(rgbs), draw(rgbs)]   # gradient
        else:
            spec["bg_color"] = draw(rgbs)
    if opt():
        spec["font_color"] = draw(rgbs)
    if opt():
        spec["font_size"] = draw(f32)
    if opt():
        spec["font_name"] = draw(st.sampled_from(fams))
    for a in ("bold", "italic", "strikethrough", "underline", "text_wrap"):
        if opt(a == "text_wrap"):
            spec[a] = draw(st.booleans())
    for a in ("first_indent", "left_indent", "right_indent", "text_inset"):
        if opt(True):
            spec[a] = draw(f32)
    return spec


def make_style_machine(ctx):
    fams = families()

    class Machine(RuleBasedStateMachine):
        def __init__(self):
            super().__init__()
            self.ex = StyleExec(ctx)
            self.dead = False

        def step(self, _op, **args):
            if self.dead:
                return
            try:
                self.ex.apply(_op, **args)
            except _Abort:
                self.dead = True

        def ensure(self, data):
            if self.ex.doc is None:
                self.step("new", rows=data.draw(st.integers(2, 5)), cols=data.draw(st.integers(2, 4)))

        @rule(data=st.data())
        def add_style(self, data):
            self.ensure(data)
            if self.dead or len(self.ex.styles) >= 6:
                return
            spec = data.draw(style_specs(fams, len(self.ex.styles)))
            if spec.get("name") in [m["name"] for m in self.ex.smodel] or spec.get("name") in getattr(self.ex, "frozen_names", set()):
                return
            if "bg_image" in spec:
                # file names are unique within a history (the library refuses a second image of the same name)
                spec["bg_image"][0] = f"img_{len(self.ex.log)}_{spec['bg_image'][0]}"
                if data.draw(st.integers(0, 3)) == 0:
                    # a file name that itself contains the document suffix, or a dot-heavy one
                    spec["bg_image"][0] = data.draw(st.sampled_from(["budget.numbers-", "x.numbers.", "a.b.c-"])) + spec["bg_image"][0]
            self.step("add_style", spec=spec)

        @rule(data=st.data(), by_name=st.booleans())
        def apply(self, data, by_name):
            self.ensure(data)
            if self.dead or not self.ex.styles:
                return
            t = self.ex.table
            row, col = data.draw(st.integers(0, t.num_rows - 1)), data.draw(st.integers(0, t.num_cols - 1))
            op = "apply_hidden" if (row, col) in getattr(self.ex, "hidden", ()) else "apply"
            self.step(op, row=row, col=col, idx=data.draw(st.integers(0, len(self.ex.styles) - 1)), by_name=by_name)

        @rule(data=st.data(), by_name=st.booleans())
        def restyle(self, data, by_name):
            """another style for a cell that already carries one (possibly one it was saved with)"""
            self.ensure(data)
            if self.dead or not self.ex.styles or not self.ex.cellstyle:
                return
            row, col = data.draw(st.sampled_from(sorted(self.ex.cellstyle)))
            self.step("apply", row=row, col=col, idx=data.draw(st.integers(0, len(self.ex.styles) - 1)), by_name=by_name)

        @rule(data=st.data())
        def merge(self, data):
            self.ensure(data)
            if self.dead or getattr(self.ex, "hidden", None):
                return
            t = self.ex.table
            r0 = data.draw(st.integers(0, t.num_rows - 2))
            c0 = data.draw(st.integers(0, t.num_cols - 2))
            r1 = data.draw(st.integers(r0, min(t.num_rows - 1, r0 + 1)))
            c1 = data.draw(st.integers(c0 + (1 if r1 == r0 else 0), min(t.num_cols - 1, c0 + 1)))
            self.step("merge", rect=[r0, c0, r1, c1])

        @rule(data=st.data(), by_name=st.booleans())
        def apply_hidden(self, data, by_name):
            self.ensure(data)
            hidden = sorted(getattr(self.ex, "hidden", ()))
            if self.dead or not hidden or not self.ex.styles:
                return
            row, col = data.draw(st.sampled_from(hidden))
            self.step("apply_hidden", row=row, col=col, idx=data.draw(st.integers(0, len(self.ex.styles) - 1)), by_name=by_name)

        @rule(data=st.data())
        def apply_saved_name(self, data):
            self.ensure(data)
            names = sorted(getattr(self.ex, "frozen_names", ()))
            if self.dead or not names:
                return
            t = self.ex.table
            row, col = data.draw(st.integers(0, t.num_rows - 1)), data.draw(st.integers(0, t.num_cols - 1))
            if (row, col) in getattr(self.ex, "hidden", ()):
                return
            self.step("apply_saved_name", row=row, col=col, name=data.draw(st.sampled_from(names)))

        @rule(data=st.data())
        def edit(self, data):
            self.ensure(data)
            if self.dead or not self.ex.styles:
                return
            idx = data.draw(st.integers(0, len(self.ex.styles) - 1))
            attr = data.draw(st.sampled_from(["bold", "italic", "underline", "strikethrough", "font_size", "font_color", "font_name", "alignment",
                                              "bg_color", "first_indent", "left_indent", "right_indent", "text_inset", "text_wrap"]))
            if attr == "bg_color" and self.ex.smodel[idx].get("bg_image") is not None:
                return
            if data.draw(st.integers(0, 9)) == 0:
                # a new name for an existing style
                new = f"Renamed {len(self.ex.log)}"
                self.step("edit", idx=idx, attr="name", value=new)
                return
            if data.draw(st.integers(0, 7)) == 0 and self.ex.smodel[idx].get("bg_color") is None:
                # a (new) background image given to an existing style
                png = bytes([137, 80, 78, 71, 13, 10, 26, 10]) + data.draw(st.binary(min_size=4, max_size=20))
                self.step("edit", idx=idx, attr="bg_image", value=[f"late_{len(self.ex.log)}.png", png.hex()])
                return
            if attr in ("bold", "italic", "underline", "strikethrough", "text_wrap"):
                value = data.draw(st.booleans())
            elif attr in ("font_size", "first_indent", "left_indent", "right_indent", "text_inset"):
                value = data.draw(f32)
            elif attr in ("font_color", "bg_color"):
                value = data.draw(rgbs)
            elif attr == "font_name":
                value = data.draw(st.sampled_from(fams))
            else:
                value = data.draw(aligns)
            self.step("edit", idx=idx, attr=attr, value=value)

        @rule(data=st.data(), what=st.sampled_from(["style", "border", "both"]))
        def read(self, data, what):
            self.ensure(data)
            if self.dead:
                return
            t = self.ex.table
            cells = data.draw(st.lists(st.tuples(st.integers(0, t.num_rows - 1), st.integers(0, t.num_cols - 1)).map(list), max_size=6))
            self.step("read", cells=cells, what=what)

        @rule(switch=st.booleans(), data=st.data())
        def reopen(self, switch, data):
            self.ensure(data)
            if self.dead or self.ex.nsaves >= 3:
                return
            self.step("reopen", switch=switch)

        def teardown(self):
            try:
                if not self.dead and self.ex.doc is not None:
                    if self.ex.log and self.ex.log[-1]["op"] != "reopen":
                        self.step("reopen", switch=False)  # every history ends with what a reader of the saved file sees
                    if not self.dead:
                        self.ex.finish()
            finally:
                self.ex.close()

    return Machine


# ------------------------------------------------------------------------------------------
# borders

SIDES = ["top", "right", "bottom", "left"]


class BorderExec(Exec):
    PROP = "C15"

    def __init__(self, ctx):
        super().__init__(ctx)
        from numbers_parser import Document

        self.Document = Document
        self.doc = None
        self.edges = {}   # ("h", i, j) / ("v", i, j) -> [width, rgb, style]
        self.hits = {}
        self.merges = []
        self.flags = set()
        self.nsaves = 0
        self.rows = self.cols = 0

    @property
    def table(self):
        return self.doc.sheets[0].tables[0]

    @staticmethod
    def edge(r, c, side):
        return {"top": ("h", r, c), "bottom": ("h", r + 1, c), "left": ("v", r, c), "right": ("v", r, c + 1)}[side]

    def interior(self, r, c, side):
        for r0, c0, r1, c1 in self.merges:
            if r0 <= r <= r1 and c0 <= c <= c1:
                if side == "top" and r > r0 or side == "bottom" and r < r1 or side == "left" and c > c0 or side == "right" and c < c1:
                    return True
        return False

    def check_view(self, table, where, reopened=False):
        style_name = {0: "solid", 1: "dashes", 2: "dots", 3: "none"}
        for r in range(self.rows):
            for c in range(self.cols):
                b = table.cell(r, c).border
                for side in SIDES:
                    self.ctx.ev()
                    got = getattr(b, side)
                    want = None if self.interior(r, c, side) else self.edges.get(self.edge(r, c, side))
                    g = None if got is None else [got.width, list(got.color), style_name[int(got.style)]]
                    if g != want:
                        multi = self.hits.get(self.edge(r, c, side), 0) >= 2
                        self.fail(("border", "reopened" if reopened else "open", "overlapping" if multi else "single", "merged" if self.merges else "plain"),
                                  f"{where}: cell ({r},{c}).border.{side} is {g}, edge model says {want} ({self.hits.get(self.edge(r, c, side), 0)} strokes touched this edge)")

    def op_new(self, rows, cols):
        self.doc = self.Document(num_rows=rows, num_cols=cols, num_header_rows=0, num_header_cols=0)
        self.rows, self.cols = rows, cols
        self.check_view(self.table, "new")

    def op_merge(self, rect):
        from vf import a1

        r0, c0, r1, c1 = rect
        self.table.merge_cells(a1.cell_name(r0, c0) + ":" + a1.cell_name(r1, c1))
        self.merges.append(tuple(rect))
        self.flags.add("merged")
        self.check_view(self.table, "merge")

    def _border(self, width, rgb, style, shared):
        """A Border object: a fresh one, or (shared) the one object used for every stroke of that look in this history -
        re-using a border object for several strokes and tables is the documented pattern."""
        from numbers_parser import RGB, Border

        if not shared:
            return Border(float(width), RGB(*rgb), style)
        pool = self.__dict__.setdefault("pool", {})
        key = (float(width), tuple(rgb), style)
        if key not in pool:
            pool[key] = Border(float(width), RGB(*rgb), style)
        self.flags.add("shared_border_object")
        return pool[key]

    def op_decoy(self, count, width, rgb, style):
        """Strokes drawn with a shared Border object on a second table of the document (they must not matter to the first)."""
        if len(self.doc.sheets[0].tables) < 2:
            self.doc.sheets[0].add_table("Decoy", num_rows=4, num_cols=8)
        t2 = self.doc.sheets[0].tables[1]
        b = self._border(width, rgb, style, True)
        with warnings.catch_warnings():
            warnings.simplefilter("ignore")
            for k in range(count):
                t2.set_cell_border(k % 4, (k // 4) % 8, ["top", "left", "bottom", "right"][k % 4], b)
        self.check_view(self.table, "decoy")

    def op_stroke(self, row, col, side, length, width, rgb, style, shared=False):
        b = self._border(width, rgb, style, shared)
        with warnings.catch_warnings(record=True) as w:
            warnings.simplefilter("always")
            self.table.set_cell_border(row, col, side, b, length)
        ignored = any("is merged; border not set" in str(x.message) for x in w)
        if not ignored:
            for k in range(length):
                r, c = (row, col + k) if side in ("top", "bottom") else (row + k, col)
                e = self.edge(r, c, side)
                self.edges[e] = [float(width), list(rgb), style]
                self.hits[e] = self.hits.get(e, 0) + 1
                if self.hits[e] >= 2:
                    self.flags.add("overlapping")
        else:
            self.flags.add("ignored_merged_edge")
        self.check_view(self.table, "stroke")

    def op_write(self, row, col, value):
        self.table.write(row, col, value)
        self.flags.add("write_after_border")
        self.check_view(self.table, "write")

    def op_grow(self, how, n):
        """The table grows by rows/columns at its end (add_row, add_column, or a write past the last cell): the new cells share
        edges with the old last row/column and must report the strokes drawn along them."""
        if how == "add_row":
            self.table.add_row(n)
            self.rows += n
        elif how == "add_column":
            self.table.add_column(n)
            self.cols += n
        else:
            self.table.write(self.rows + n - 1, self.cols + n - 1, "g")
            self.rows += n
            self.cols += n
        self.flags.add("grown_after_strokes")
        self.check_view(self.table, "grow")

    def op_reopen(self, switch):
        path = self.tmpdir() / f"b{self.nsaves}.numbers"
        self.nsaves += 1
        with warnings.catch_warnings():
            warnings.simplefilter("ignore")
            self.doc.save(path)
            self.check_view(self.table, "after_save")
            re = self.Document(path)
        self.check_view(re.sheets[0].tables[0], "reopened", reopened=True)
        if switch:
            self.doc = re

    def finish(self):
        for f in sorted(self.flags):
            self.ctx.count("border_hist_" + f)
        self.ctx.count("border_histories")
        if "overlapping" in self.flags:
            self.ctx.nt(self.log)
        self.ctx.sample({"ops": self.log[:6], "n_ops": len(self.log)}, every=13)


def make_border_machine(ctx, with_merges):
    class Machine(RuleBasedStateMachine):
        def __init__(self):
            super().__init__()
            self.ex = BorderExec(ctx)
            self.dead = False

        def step(self, _op, **args):
            if self.dead:
                return
            try:
                self.ex.apply(_op, **args)
            except _Abort:
                self.dead = True

        def ensure(self, data):
            if self.ex.doc is None:
                self.step("new", rows=data.draw(st.integers(3, 8)), cols=data.draw(st.integers(3, 8)))
                if with_merges and not self.dead:
                    r0 = data.draw(st.integers(0, self.ex.rows - 2))
                    c0 = data.draw(st.integers(0, self.ex.cols - 2))
                    r1 = data.draw(st.integers(r0, min(self.ex.rows - 1, r0 + 2)))
                    c1 = data.draw(st.integers(c0, min(self.ex.cols - 1, c0 + 2)))
                    if (r0, c0) != (r1, c1):
                        self.step("merge", rect=[r0, c0, r1, c1])

        @rule(data=st.data(), side=st.sampled_from(SIDES), width=st.sampled_from([0.25, 0.35, 0.5, 1.0, 1.5, 2.0, 3.25, 8.0, 0.07]), rgb=rgbs,
              style=st.sampled_from(["solid", "dashes", "dots", "none"]), mode=st.sampled_from(["any", "any", "repeat", "neighbour", "contained"]))
        def stroke(self, data, side, width, rgb, style, mode):
            self.ensure(data)
            if self.dead:
                return
            ex = self.ex
            prev = [op for op in ex.log if op["op"] == "stroke"]
            if mode != "any" and prev:
                p = prev[data.draw(st.integers(0, len(prev) - 1))]
                row, col, side, length = p["row"], p["col"], p["side"], p["length"]
                if mode == "neighbour":
                    # the same edge drawn from the cell on the other side of it
                    opp = {"top": ("bottom", -1, 0), "bottom": ("top", 1, 0), "left": ("right", 0, -1), "right": ("left", 0, 1)}[side]
                    nr, nc = row + opp[1], col + opp[2]
                    if not (0 <= nr < ex.rows and 0 <= nc < ex.cols):
                        return
                    row, col, side = nr, nc, opp[0]
                elif mode == "contained" and length >= 2:
                    off = data.draw(st.integers(0, length - 1))
                    length = data.draw(st.integers(1, length - off))
                    if side in ("top", "bottom"):
                        col += off
                    else:
                        row += off
            else:
                row = data.draw(st.integers(0, ex.rows - 1))
                col = data.draw(st.integers(0, ex.cols - 1))
                length = data.draw(st.integers(1, (ex.cols - col) if side in ("top", "bottom") else (ex.rows - row)))
            if ex.merges and length > 1:
                length = 1  # strokes running through a merged region are left to single-cell calls (the API checks the start cell only)
            shared = data.draw(st.integers(0, 3)) == 0
            if shared and getattr(ex, "pool", None) and data.draw(st.booleans()):
                width, rgb, style = data.draw(st.sampled_from(sorted(ex.pool, key=repr)))  # the look of an object already in use
                rgb = list(rgb)
            self.step("stroke", row=row, col=col, side=side, length=length, width=width, rgb=rgb, style=style, shared=shared)

        @rule(data=st.data(), count=st.integers(1, 12))
        def decoy(self, data, count):
            self.ensure(data)
            if self.dead or not getattr(self.ex, "pool", None):
                return
            width, rgb, style = data.draw(st.sampled_from(sorted(self.ex.pool, key=repr)))
            self.step("decoy", count=count, width=width, rgb=list(rgb), style=style)

        @rule(data=st.data())
        def merge_later(self, data):
            """Merge a further rectangle after strokes were drawn: edges inside it disappear, every other known border stays."""
            self.ensure(data)
            if self.dead or not with_merges or len(self.ex.merges) >= 3:
                return
            ex = self.ex
            r0 = data.draw(st.integers(0, ex.rows - 1))
            c0 = data.draw(st.integers(0, ex.cols - 1))
            r1 = data.draw(st.integers(r0, min(ex.rows - 1, r0 + 2)))
            c1 = data.draw(st.integers(c0, min(ex.cols - 1, c0 + 2)))
            if (r0, c0) == (r1, c1):
                return
            for a0, b0, a1, b1 in ex.merges:
                if not (r1 < a0 or a1 < r0 or c1 < b0 or b1 < c0):
                    return
            if any(op["op"] == "stroke" for op in ex.log):
                ex.flags.add("merge_after_strokes")
            self.step("merge", rect=[r0, c0, r1, c1])

        @rule(data=st.data(), v=st.sampled_from(["x", 3, 2.5, True]))
        def write(self, data, v):
            self.ensure(data)
            if self.dead:
                return
            r, c = data.draw(st.integers(0, self.ex.rows - 1)), data.draw(st.integers(0, self.ex.cols - 1))
            for r0, c0, r1, c1 in self.ex.merges:
                if r0 <= r <= r1 and c0 <= c <= c1 and (r, c) != (r0, c0):
                    return
            self.step("write", row=r, col=c, value=v)

        @rule(switch=st.booleans(), data=st.data())
        def reopen(self, switch, data):
            self.ensure(data)
            if self.dead or self.ex.nsaves >= 3:
                return
            self.step("reopen", switch=switch)

        @rule(data=st.data(), how=st.sampled_from(["add_row", "add_column", "write_beyond"]), n=st.integers(1, 2))
        def grow(self, data, how, n):
            self.ensure(data)
            if self.dead or self.ex.rows + n > 11 or self.ex.cols + n > 11 or not any(op["op"] == "stroke" for op in self.ex.log):
                return
            self.step("grow", how=how, n=n)

        @rule(data=st.data(), shape=st.sampled_from(["other_side", "partial_overlap"]), looks=st.lists(st.tuples(
            st.sampled_from([0.25, 0.5, 1.0, 2.0, 3.25]), rgbs, st.sampled_from(["solid", "dashes", "dots"])), min_size=3, max_size=3, unique_by=lambda t: t[0]))
        def sandwich(self, data, shape, looks):
            """An earlier stroke, a second one over (part of) the same edges drawn differently, then the first extent again:
            the third is the last writer although a record for its extent already exists."""
            self.ensure(data)
            if self.dead:
                return
            ex = self.ex
            side = data.draw(st.sampled_from(SIDES))
            horiz = side in ("top", "bottom")
            n = ex.cols if horiz else ex.rows
            row = data.draw(st.integers(0, ex.rows - 1))
            col = data.draw(st.integers(0, ex.cols - 1))
            pos = col if horiz else row
            length = 1 if ex.merges else data.draw(st.integers(1, n - pos))
            first = dict(row=row, col=col, side=side, length=length)
            if shape == "other_side":
                opp = {"top": ("bottom", -1, 0), "bottom": ("top", 1, 0), "left": ("right", 0, -1), "right": ("left", 0, 1)}[side]
                nr, nc = row + opp[1], col + opp[2]
                if not (0 <= nr < ex.rows and 0 <= nc < ex.cols):
                    return
                second = dict(row=nr, col=nc, side=opp[0], length=length)
            else:
                if ex.merges or pos == 0:
                    return
                start = data.draw(st.integers(0, pos - 1))
                l2 = data.draw(st.integers(pos - start + 1, min(n - start, pos - start + length)))
                second = dict(row=row if horiz else start, col=start if horiz else col, side=side, length=l2)
            for where, (w, rgb, style) in zip((first, second, first), looks):
                if self.dead:
                    return
                self.step("stroke", **where, width=w, rgb=rgb, style=style)

        def teardown(self):
            try:
                if not self.dead and self.ex.doc is not None:
                    if self.ex.log and self.ex.log[-1]["op"] != "reopen":
                        self.step("reopen", switch=False)  # every history ends with what a reader of the saved file sees
                    if not self.dead:
                        self.ex.finish()
            finally:
                self.ex.close()

    return Machine


BASE_SPEC = {"alignment": ["left", "middle"], "bg_color": [10, 20, 30], "font_color": [200, 100, 50], "font_size": 14.0, "font_name": "Helvetica Neue",
             "bold": False, "italic": False, "strikethrough": False, "underline": False, "first_indent": 2.0, "left_indent": 3.0, "right_indent": 4.0,
             "text_inset": 5.0, "text_wrap": True}
ALT = {"alignment": ["right", "bottom"], "bg_color": [11, 20, 30], "font_color": [200, 100, 51], "font_size": 14.25, "font_name": "Courier New", "bold": True,
       "italic": True, "strikethrough": True, "underline": True, "first_indent": 2.25, "left_indent": 3.25, "right_indent": 4.25, "text_inset": 5.25,
       "text_wrap": False}


def attribute_matrix(ctx, attr):
    """Enumerated: (a) two styles identical except `attr`, both applied, reload; (b) a saved style whose `attr` is edited, saved again, reload."""
    fams = families()
    alt = dict(ALT)
    if alt["font_name"] not in fams:
        alt["font_name"] = fams[0]
    for variant in ("twins", "edit_after_save"):
        ex = StyleExec(ctx)
        try:
            ex.apply("new", rows=3, cols=2)
            ex.apply("add_style", spec={"name": "Base", **BASE_SPEC})
            ex.apply("apply", row=0, col=0, idx=0, by_name=False)
            if variant == "twins":
                ex.apply("add_style", spec={"name": "Twin", **BASE_SPEC, attr: alt[attr]})
                ex.apply("apply", row=1, col=1, idx=1, by_name=True)
                ex.apply("reopen", switch=False)
            else:
                ex.apply("reopen", switch=False)
                ex.apply("edit", idx=0, attr=attr, value=alt[attr])
                ex.apply("read", cells=[[0, 0], [2, 1]], what="both")
                ex.apply("reopen", switch=False)
            ex.finish()
            ctx.nt_enum(1)
        except _Abort:
            pass
        finally:
            ex.close()


# pairs of styles whose attribute values read the same when written one after the other without a separator
ADJACENT_PAIRS = [
    ({"bg_color": [255, 0, 0]}, {"bg_color": [25, 50, 0]}),
    ({"bg_color": [1, 23, 4]}, {"bg_color": [12, 3, 4]}),
    ({"bg_color": [10, 0, 200]}, {"bg_color": [100, 20, 0]}),
    # float32-exact values: "1.0" + "6250.5" == "1.0625" + "0.5"
    ({"right_indent": 1.0, "text_inset": 6250.5}, {"right_indent": 1.0625, "text_inset": 0.5}),
    ({"first_indent": 2.5, "left_indent": 6250.5}, {"first_indent": 2.5625, "left_indent": 0.5}),
    # an image file whose name contains the document suffix
    ({"bg_color": None, "bg_image": ["budget.numbers-cat.png", "89504e470d0a1a0a0a0b0c"]}, {"bg_color": None, "bg_image": ["plain.png", "89504e470d0a1a0a0d0e0f"]}),
    # image files named like other parts of a package
    ({"bg_color": None, "bg_image": ["photo-index.zip", "89504e470d0a1a0a111213"]}, {"bg_color": None, "bg_image": ["Tile.iwa.png", "89504e470d0a1a0a141516"]}),
    # an image file named like the inner archive of a document
    ({"bg_color": None, "bg_image": ["Index.zip", "89504e470d0a1a0a212223"]}, {"bg_color": None, "bg_image": ["Metadata.plist", "89504e470d0a1a0a242526"]}),
    # the same picture under two file names: two images of the document
    ({"bg_color": None, "bg_image": ["one.png", "89504e470d0a1a0a0102030405"]}, {"bg_color": None, "bg_image": ["two.png", "89504e470d0a1a0a0102030405"]}),
]


def adjacent_pairs(ctx):
    for k, (a, b) in enumerate(ADJACENT_PAIRS):
        ex = StyleExec(ctx)
        try:
            ex.apply("new", rows=3, cols=2)
            ex.apply("add_style", spec={k_: v for k_, v in {"name": "One", **BASE_SPEC, **a}.items() if v is not None})
            ex.apply("add_style", spec={k_: v for k_, v in {"name": "Two", **BASE_SPEC, **b}.items() if v is not None})
            ex.apply("apply", row=0, col=0, idx=0, by_name=False)
            ex.apply("apply", row=1, col=1, idx=1, by_name=False)
            ex.apply("reopen", switch=False)
            ex.finish()
            ctx.nt_enum(1)
        except _Abort:
            pass
        finally:
            ex.close()


def restyle_pairs(ctx, n, seed_):
    """A cell saved with one style is given another one - on the same handle or on the reopened one - and saved again: the cell must
    then show the second style in full, including everything the second style leaves at its default."""
    fams = families()
    strat = st.tuples(style_specs(fams, 0), style_specs(fams, 1), st.booleans(), st.booleans())

    def body(t):
        a, b, switch, early = t
        if a.get("name") is not None and a.get("name") == b.get("name"):
            return
        for sp in (a, b):
            if isinstance(sp.get("bg_color"), list) and sp["bg_color"] and isinstance(sp["bg_color"][0], list):
                del sp["bg_color"]   # gradients cannot be saved (known finding of the histories lane)
        if "bg_image" in a and "bg_image" in b and a["bg_image"][0] == b["bg_image"][0]:
            b["bg_image"][0] = "second_" + b["bg_image"][0]
        ex = StyleExec(ctx)
        try:
            ex.apply("new", rows=3, cols=3)
            ex.apply("add_style", spec=a)
            if early:
                ex.apply("add_style", spec=b)   # the second style exists before the first save
            ex.apply("apply", row=1, col=1, idx=0, by_name=False)
            ex.apply("apply", row=2, col=1, idx=0, by_name=False)
            ex.apply("reopen", switch=switch and not early)
            if not early:
                ex.apply("add_style", spec=b)
            ex.apply("apply", row=1, col=1, idx=len(ex.styles) - 1, by_name=False)
            ex.apply("reopen", switch=False)
            ex.finish()
            ctx.count("restyle_pairs")
            if not any(k in b for k in ("alignment", "bg_color", "bg_image", "text_wrap", "text_inset", "first_indent", "left_indent", "right_indent")):
                ctx.count("restyle_second_style_text_only")
        except _Abort:
            pass
        finally:
            ex.close()

    run_given(ctx, strat, body, n, seed_, phases=(Phase.explicit, Phase.generate))


def late_image(ctx):
    """A style gets its background image after it was created - before the first save, and after a save on the same handle (fixed
    cases: the histories reach this edit only now and then)."""
    png = "89504e470d0a1a0a"
    for k, saved_first in enumerate((False, True)):
        ex = StyleExec(ctx)
        try:
            ex.apply("new", rows=3, cols=2)
            ex.apply("add_style", spec={"name": "Late", "bold": True, "font_size": 14.0})
            ex.apply("apply", row=0, col=0, idx=0, by_name=False)
            if saved_first:
                ex.apply("reopen", switch=False)
            ex.apply("edit", idx=0, attr="bg_image", value=[f"late_fixed_{k}.png", png + "a1a2a3a4" + f"{k:02x}"])
            ex.apply("apply", row=1, col=1, idx=0, by_name=False)
            ex.apply("reopen", switch=False)
            ex.finish()
            ctx.nt_enum(1)
            ctx.count("late_image_cases")
        except _Abort:
            pass
        finally:
            ex.close()


READONLY_QUICK = ["test-bgcolour.numbers", "test-styles.numbers", "test-1.numbers", "test-formats.numbers", "test-extra-borders.numbers", "issue-51.numbers"]


def check_readonly(ctx, case):
    """Merely reading styles or borders never changes what is saved: the package saved after every Cell.style / Cell.border /
    Document.styles was read holds the same objects, byte for byte, as the package saved without reading anything."""
    import shutil
    import tempfile
    from pathlib import Path

    from numbers_parser import Document
    from vf import fixtures, validate

    src = fixtures.DATA / case["fixture"]
    tmp = Path(tempfile.mkdtemp(prefix="vf_c15r_"))
    try:
        def run(read):
            with warnings.catch_warnings():
                warnings.simplefilter("ignore")
                d = Document(src)
                if read:
                    _ = d.styles
                    for sh in d.sheets:
                        for t in sh.tables:
                            for row in t.rows():
                                for cell in row:
                                    if read in ("style", "both"):
                                        try:
                                            _ = cell.style
                                        except (KeyError, IndexError):
                                            pass   # unreadable style of the source document (unknown font): not this property
                                    if read in ("border", "both"):
                                        _ = cell.border
                p = tmp / f"{read or 'plain'}.numbers"
                d.save(p)
            return validate.load(p)

        base = ctx.guard(("C15", "readonly_save_raised", "plain"), case, run, None)
        if base is None:
            return
        types = validate._registry()
        for read in ("style", "border", "both"):
            ctx.ev()
            got = ctx.guard(("C15", "readonly_save_raised", read), case, run, read)
            if got is None:
                continue
            a, b = base["raw"], got["raw"]
            diff = sorted(i for i in set(a) | set(b) if a.get(i) != b.get(i))
            if diff or base["members"] != got["members"]:
                kinds = sorted({getattr(types.get((base["objects"].get(i) or got["objects"].get(i))[0]), "__name__", "?") for i in diff})
                ctx.fail(("C15", "reading_changes_saved", read, *kinds[:3]), {**case, "read": read},
                         f"{case['fixture']}: saving after reading every cell's {read} changes {len(diff)} saved object(s) ({kinds[:4]}), e.g. object {diff[:3]}")
            ctx.nt((case["fixture"], read))
        ctx.count("readonly_documents")
    finally:
        shutil.rmtree(tmp, ignore_errors=True)


def image_name_collision(ctx):
    """A second, different picture given to an existing style under a file name already in use: refused (IndexError, as
    add_style documents) or both styles read back their own picture - never the other style's picture."""
    spec = {k_: v for k_, v in BASE_SPEC.items() if k_ != "bg_color"}
    ex = StyleExec(ctx)
    try:
        ex.apply("new", rows=3, cols=2)
        ex.apply("add_style", spec={"name": "One", **spec, "bg_image": ["pic.png", "89504e470d0a1a0a41414141"]})
        ex.apply("add_style", spec={"name": "Two", **spec})
        ex.apply("edit", idx=1, attr="bg_image", value=["pic.png", "89504e470d0a1a0a42424242"])
        ex.apply("apply", row=0, col=0, idx=0, by_name=False)
        ex.apply("apply", row=1, col=1, idx=1, by_name=False)
        ex.apply("reopen", switch=False)
        ex.finish()
    except _Abort:
        pass
    finally:
        ctx.nt_enum(1)
        ex.close()


def tasks(tier, seed):
    t = [("matrix", {"attr": a}) for a in BASE_SPEC]
    t.append(("adjacent", {}))
    from vf import fixtures as _fx

    for name in (READONLY_QUICK if tier == "quick" else [n for n in _fx.SUPPORTED if n not in ("custom-format-stress.numbers", "test-6.numbers", "issue-67.numbers", "duration_112.numbers", "issue-35.numbers")]):
        t.append(("readonly", {"fixture": name}))
    for k in range(4):
        t.append(("restyle", {"n": 12 if tier == "quick" else 150, "seed": derive_seed(seed, "c15r", k)}))
    for k in range(8):
        t.append(("styles", {"n": 30 if tier == "quick" else 400, "steps": 14 if tier == "quick" else 20, "seed": derive_seed(seed, "c15s", k)}))
    for k in range(8):
        t.append(("borders", {"n": 40 if tier == "quick" else 600, "steps": 14 if tier == "quick" else 24, "seed": derive_seed(seed, "c15b", k), "merges": k % 4 == 3}))
    return t


def run_task(ctx, lane, **kw):
    if lane == "styles":
        run_machine(ctx, make_style_machine(ctx), kw["n"], kw["steps"], kw["seed"], exec_factory=StyleExec)
    elif lane == "matrix":
        attribute_matrix(ctx, kw["attr"])
    elif lane == "adjacent":
        adjacent_pairs(ctx)
        image_name_collision(ctx)
        late_image(ctx)
    elif lane == "readonly":
        check_readonly(ctx, {"lane": "readonly", "fixture": kw["fixture"]})
    elif lane == "restyle":
        restyle_pairs(ctx, kw["n"], kw["seed"])
    elif lane == "borders":
        run_machine(ctx, make_border_machine(ctx, kw["merges"]), kw["n"], kw["steps"], kw["seed"], exec_factory=BorderExec)
    else:
        raise ValueError(lane)


def check_case(ctx, case):
    if case.get("lane") == "readonly":
        return check_readonly(ctx, {k: v for k, v in case.items() if k in ("lane", "fixture")})
    ops = case["ops"]
    is_style = any(o["op"] in ("add_style", "apply", "apply_hidden", "apply_saved_name", "edit") for o in ops)
    ex = StyleExec(ctx) if is_style else BorderExec(ctx) if any(o["op"] in ("stroke", "merge") for o in ops) or (ops and ops[0]["op"] == "new" and not any(o["op"] in ("add_style", "apply", "edit", "read") for o in ops) and case.get("kind") == "border") else StyleExec(ctx)
    ex.replay(ops)
