"""C02  Re-saving an unmodified document preserves everything the library reads."""
import re
import shutil
import tempfile
import warnings
from pathlib import Path

from hypothesis import strategies as st

from vf import fixtures, snapshot
from vf.core import derive_seed, run_given

ID = "C02"
RULE = (
    "Documents: every supported fixture (69), the bundled template, and documents produced by the editing API "
    "(generated writes/merges/styles/formats). History: k = 2 (quick) / 3 (thorough) consecutive save/open cycles, as a single file and "
    "(10 fixtures quick / all thorough) in package-folder form into a fresh folder per cycle or always the same folder incl. two saves from one handle; a "
    "Hypothesis-chosen boolean vector says which read-only accessors (formula, formatted_value, style, border, "
    "row_height, col_width) are called on which sample of cells before each save. Oracle: whole-document snapshot "
    "(sheets, tables, order, dimensions, merge_ranges, per cell class/value/formula/formatted value/merge state/"
    "bullets/hyperlinks) of a fresh open of the source == snapshot after cycle 1 == after cycle k; saving never raises; "
    "exempt exactly: source ErrorCells named in an 'unsupported data type ErrorCell' warning and tables named in a "
    "'Not modifying pivot table' warning. Non-trivial: compared non-empty cell; distinct by (document, sheet, table, row, col)."
)
ASSUMPTIONS = [
    "an accessor that raises in the source snapshot is recorded as the exception class name and compared, not fatal",
    "the reference snapshot comes from a separate fresh open, so it cannot be influenced by the accessor vector",
]

ACCESSORS = ["formula", "formatted_value", "style", "border", "row_height", "col_width"]


def touch(doc, access, mod):
    """Call the selected read-only accessors on every mod-th cell."""
    k = 0
    for sheet in doc.sheets:
        for table in sheet.tables:
            for r, row in enumerate(table.rows()):
                if access[4] and r % mod == 0:
                    table.row_height(r)
                for c, cell in enumerate(row):
                    k += 1
                    if k % mod:
                        continue
                    if access[0]:
                        try:
                            _ = cell.formula
                        except Exception:
                            pass
                    if access[1]:
                        try:
                            _ = cell.formatted_value
                        except Exception:
                            pass
                    if access[2]:
                        try:
                            _ = cell.style
                        except Exception:
                            pass  # an accessor that raises on the source is not C02's concern (C15)
                    if access[3]:
                        try:
                            _ = cell.border
                        except Exception:
                            pass
                    if access[5] and r == 0:
                        table.col_width(c)


ERR_RE = re.compile(r"@(.*):\[(\d+),(\d+)\]: unsupported data type ErrorCell for save")
PIVOT_RE = re.compile(r"Not modifying pivot table '(.*)'")


def check_resave(ctx, case):
    from numbers_parser import Document

    src = Path(case["path"]) if "path" in case else fixtures.DATA / case["fixture"]
    label = case.get("fixture") or case.get("label") or src.name
    tmp = Path(tempfile.mkdtemp(prefix="vf_c02_"))
    try:
        with warnings.catch_warnings():
            warnings.simplefilter("ignore")
            ref = ctx.guard(("C02", "open_source"), case, Document, src)
            if ref is None:
                return
            s_ref = snapshot.doc_snapshot(ref)
            doc = Document(src)
        prev_snap = s_ref
        err_cells, pivots = set(), set()
        for cycle in range(case["cycles"]):
            with warnings.catch_warnings(record=True) as w:
                warnings.simplefilter("always")
                ok = ctx.guard(("C02", "accessors", cycle), case, lambda: (touch(doc, case["access"], case["mod"]), True)[1])
                if ok is None:
                    return
                pk = case.get("package")
                path = tmp / ("pkg.numbers" if pk == "same" else f"cycle{cycle}.numbers")
                if pk:
                    # package-folder form: into a fresh folder per cycle, or always the same folder (cycle 0 creates it and saves
                    # a second time from the same handle, later cycles overwrite the folder the document was opened from)
                    ok = ctx.guard(("C02", "package_save_raised", pk, "first" if cycle == 0 else "later"), case, lambda: (doc.save(path, package=True), True)[1])
                    if ok is not None and pk == "same" and cycle == 0:
                        ok = ctx.guard(("C02", "package_save_raised", pk, "repeat"), case, lambda: (doc.save(path, package=True), True)[1])
                    ctx.count("package_saves")
                else:
                    ok = ctx.guard(("C02", "save_raised", cycle), case, lambda: (doc.save(path), True)[1])
                if ok is None:
                    return
            if cycle == 0:
                for x in w:
                    m = ERR_RE.search(str(x.message))
                    if m:
                        err_cells.add((m.group(1), int(m.group(2)), int(m.group(3))))
                    m = PIVOT_RE.search(str(x.message))
                    if m:
                        pivots.add(m.group(1))
            with warnings.catch_warnings():
                warnings.simplefilter("ignore")
                doc = ctx.guard(("C02", "reopen", cycle), case, Document, path)
                if doc is None:
                    return
                snap = snapshot.doc_snapshot(doc)

            def exempt(sheet, table, r, c, cell):
                if r is None:
                    return table in pivots
                return cycle == 0 and cell["cls"] == "ErrorCell" and (table, r, c) in err_cells

            d = snapshot.diff(prev_snap, snap, exempt)
            ctx.ev()
            if d:
                kinds = sorted({seg.split(":")[0].strip() for line in d for seg in line.split("]: ", 1)[-1].split(";")})
                ctx.fail(("C02", "snapshot_changed", "cycle0" if cycle == 0 else "later_cycle", *kinds[:3]), case,
                         f"{label}: cycle {cycle} changed what is read: " + " | ".join(d[:4]))
            prev_snap = snap
        n = 0
        for sname, tables in s_ref:
            for t in tables:
                for (r, c), cell in t["cells"].items():
                    ctx.ev()
                    if cell["cls"] != "EmptyCell":
                        ctx.nt((label, sname, t["name"], r, c))
                        n += 1
                        ctx.count("cls_" + cell["cls"])
                        if cell.get("formula"):
                            ctx.count("with_formula")
        ctx.count("documents")
        ctx.count("exempt_error_cells", len(err_cells))
        ctx.count("exempt_pivot_tables", len(pivots))
        ctx.sample({"document": label, "cycles": case["cycles"], "access": case["access"], "mod": case["mod"], "nonempty_cells": n}, every=5)
    finally:
        shutil.rmtree(tmp, ignore_errors=True)


def template_path():
    from numbers_parser.constants import DEFAULT_DOCUMENT

    return str(DEFAULT_DOCUMENT)


# fixtures saved in package-folder form by the quick tier (all of them by the thorough tier): plain, wrapped-package zip,
# package folders, with images, with many tables
PACKAGE_QUICK = {"test-1.numbers", "issue-32.numbers", "test-7.numbers", "test-5.numbers", "issue-69.numbers", "test-styles.numbers", "issue-3.numbers",
                 "test-formats.numbers", "simple-func.numbers", "test-issue-76.numbers"}


def tasks(tier, seed):
    t = []
    big = {"custom-format-stress.numbers", "test-6.numbers", "issue-67.numbers", "duration_112.numbers", "issue-35.numbers"}
    # big fixtures first so that they do not end up last in the pool
    for name in sorted(fixtures.SUPPORTED, key=lambda n: n not in big):
        pk = ["fresh", "same"] if (tier != "quick" and name not in big) or name in PACKAGE_QUICK else []
        t.append(("fixture", {"fixture": name, "n": (0 if name in big else 1) if tier == "quick" else 4, "cycles": 2 if tier == "quick" else 3,
                              "seed": derive_seed(seed, "c02", name), "package": pk}))
    t.append(("template", {"cycles": 3}))
    for k in range(8 if tier == "quick" else 16):
        t.append(("generated", {"n": 2 if tier == "quick" else 12, "seed": derive_seed(seed, "c02g", k), "cycles": 2 if tier == "quick" else 3}))
    return t


access_vectors = st.lists(st.booleans(), min_size=6, max_size=6) | st.sampled_from([[False] * 6, [True] * 6])


def run_task(ctx, lane, **kw):
    if lane == "fixture":
        strat = st.tuples(access_vectors, st.sampled_from([1, 2, 3, 7]))

        def body(c):
            access, mod = c
            check_resave(ctx, {"lane": "resave", "fixture": kw["fixture"], "cycles": kw["cycles"], "access": access, "mod": mod})

        body(([True] * 6, 1))  # every accessor on every cell
        for pk in kw.get("package", ()):
            check_resave(ctx, {"lane": "resave", "fixture": kw["fixture"], "cycles": 2, "access": [False] * 6, "mod": 1, "package": pk})
        if kw["n"]:
            _run_plain(ctx, strat, body, kw["n"], kw["seed"])
    elif lane == "template":
        for access in ([False] * 6, [True] * 6):
            check_resave(ctx, {"lane": "resave", "path": template_path(), "label": "template", "cycles": kw["cycles"], "access": access, "mod": 1})
    elif lane == "generated":
        from props import c02_gen

        c02_gen.run(ctx, check_resave, kw["n"], kw["seed"], kw["cycles"])
    else:
        raise ValueError(lane)


def _run_plain(ctx, strat, body, n, seed):
    """The body is expensive and its argument tiny: no shrinking needed (the case is already minimal:
    one fixture + one accessor vector)."""
    from hypothesis import Phase

    run_given(ctx, strat, body, n, seed, phases=(Phase.explicit, Phase.generate))


def check_case(ctx, case):
    if case.get("lane") == "generated":
        from props import c02_gen

        c02_gen.check_case(ctx, check_resave, case)
    else:
        check_resave(ctx, case)
