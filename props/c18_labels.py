"""C18 lane (iii-b): formula texts the reader emits for references over GENERATED header labels and table names
(operator characters, both quote characters, '#', brackets, separators) must be accepted by the tokenizer."""
import shutil
import tempfile
import warnings
from pathlib import Path

from hypothesis import strategies as st

from vf.core import run_given

ALPH = "abXY 019+-*/^&=<>%×÷≥≤≠,;(){}\"'#$!:._é"
label_text = st.text(alphabet=ALPH, min_size=1, max_size=7).map(lambda s: s.strip() or "n") | st.sampled_from(
    ["a+b", "it's", "10% off", "say \"hi\"", "item #1", "(x)", "a,b", "p'q'r", "''", "\"", "a-b c", "x&y", "50%", "1st", "né"])


@st.composite
def label_configs(draw):
    tables = []
    for name in draw(st.sampled_from([["Table 1"], ["Table 1", "Data"], ["T+1", "Data"], ["Bob's", "Data"], ["Table 1", 'Say "x"'], ["A(1)", "B,2"]])):
        rows, cols = 6, 6
        col_labels = {str(c): draw(label_text) for c in range(1, cols)}
        row_labels = {str(r): draw(label_text) for r in range(1, rows)}
        tables.append({"name": name, "rows": rows, "cols": cols, "hr": 1, "hc": 1, "col_labels": col_labels, "row_labels": row_labels})
    sheets = [{"name": "Sheet 1", "tables": tables}]
    if draw(st.booleans()):
        sheets.append({"name": "Sheet 2", "tables": [dict(tables[0], name=draw(st.sampled_from(["Table 1", "Other"])))]})
    return {"sheets": sheets}


def run(ctx, Tokenizer, TokenizerError, check_string, nontrivial, n, seed):
    from numbers_parser import Document
    from numbers_parser.generated import TSCEArchives_pb2 as TSCE
    from props import c09

    def body(config):
        tmp = Path(tempfile.mkdtemp(prefix="vf_c18l_"))
        try:
            with warnings.catch_warnings():
                warnings.simplefilter("ignore")
                doc = c09.build(config)
                model = doc._model
                tabs = [(si, ti, t) for si, sh in enumerate(config["sheets"]) for ti, t in enumerate(sh["tables"])]
                uuid_of = {(si, ti): model.table_base_id(doc.sheets[si].tables[ti]._table_id) for si, ti, _ in tabs}
                hosts = []
                for hs, ht, host_t in tabs:
                    t = doc.sheets[hs].tables[ht]
                    model._formulas.add_table(t._table_id)
                    k = 0
                    for ts, tt, tgt in tabs:
                        for kind, idxs in (("col", sorted(tgt["col_labels"])), ("row", sorted(tgt["row_labels"])),
                                           ("cols", sorted(tgt["col_labels"])), ("rows", sorted(tgt["row_labels"]))):
                            for n_, i in enumerate(idxs[: 3]):
                                if k >= 30:
                                    break
                                host = [k // 6, k % 6]
                                ref = {"to": [ts, tt], "kind": kind, "host_table": [hs, ht], "host": host}
                                if kind in ("col", "row"):
                                    ref.update({"col": int(i), "col_abs": k % 2 == 0} if kind == "col" else {"row": int(i), "row_abs": k % 2 == 0})
                                else:
                                    # a span between two labelled lines: printed as label:label (either end may need quotes)
                                    j = int(idxs[min(len(idxs) - 1, n_ + 1 + k % 2)])
                                    a_, b_ = sorted((int(i), j))
                                    ab = [k % 2 == 0, k % 3 == 0]
                                    ref.update({"r0": a_, "r1": b_, "c0": 0, "c1": 0, "abs": ab + [False, False]} if kind == "rows"
                                               else {"c0": a_, "c1": b_, "r0": 0, "r1": 0, "abs": [False, False] + ab})
                                node = c09.node_for(ref, host, uuid_of, (hs, ht))
                                fid = model._formulas.lookup_key(t._table_id, TSCE.FormulaArchive(AST_node_array={"AST_node": [node]}))
                                t.cell(*host)._formula_id = fid
                                hosts.append((hs, ht, host))
                                k += 1
                doc.save(tmp / "l.numbers")
                d2 = Document(tmp / "l.numbers")
                for hs, ht, host in hosts:
                    try:
                        text = d2.sheets[hs].tables[ht].cell(*host).formula
                    except Exception:
                        continue  # reader failures are C09's concern
                    if not isinstance(text, str):
                        continue
                    check_string(ctx, Tokenizer, TokenizerError, text, must_accept=True, origin=["generated-labels"])
                    wrapped = f"SUM({text})+1"
                    check_string(ctx, Tokenizer, TokenizerError, wrapped, must_accept=True, origin=["generated-labels", "wrapped"])
                    ctx.count("label_formulas")
                    if nontrivial(text):
                        ctx.nt(text)
                    ctx.sample({"lane": "labels", "formula": text}, every=97)
        finally:
            shutil.rmtree(tmp, ignore_errors=True)

    from hypothesis import Phase

    run_given(ctx, label_configs(), body, n, seed, phases=(Phase.explicit, Phase.generate))
