"""C07  Every saved package is structurally sound and referentially closed."""
import shutil
import tempfile
import warnings
from pathlib import Path

from hypothesis import strategies as st

from vf import docgen, fixtures, validate
from vf.core import derive_seed, run_given

ID = "C07"
RULE = (
    "Saves produced by: plain re-save of supported fixtures (one and two consecutive saves of the same open document, and a save of "
    "the reopened copy); documents built from vf/docgen recipes (new tables and sheets, writes, number/date/control formats, styles "
    "incl. background colours, borders, captions, merges, row/column insertions and deletions); shapes across tile boundaries (255, "
    "256, 257, 512 rows x 1/8 columns; 1/3 rows x 256, 257, 1000 columns). Oracle (vf/validate.py, independent decoding): the "
    "library can open the package; for every object that is new or whose bytes differ from the source package every TSP.Reference "
    "(descriptor walk) and every header object_reference resolves inside the package (0 = null), and the set of unresolved targets "
    "is a subset of the source's; new identifiers are distinct, not in the source and <= last_object_identifier; every added .iwa "
    "member is named by a ComponentInfo whose identifier lives in that file; per rewritten table: tiles' numrows sum == "
    "number_of_rows, each row stored at most once and inside the table, offset arrays cover the columns, offsets (x4 when wide) are "
    "4-byte aligned, strictly increasing, inside the buffer, records (length derived from their flags) do not overlap, cell_count == "
    "stored cells, header buckets list each index once, merge rectangles lie inside the table and are disjoint. Non-trivial: package "
    "contains >= 1 object not in the source; distinct by history."
)
ASSUMPTIONS = [
    "Apple Numbers is not available; the predicate is the property's own list of invariants",
    "for documents created from scratch the source package is the bundled template",
]


def template():
    from numbers_parser.constants import DEFAULT_DOCUMENT

    return str(DEFAULT_DOCUMENT)


def validate_saved(ctx, case, saved_path, source_pkg, label):
    from numbers_parser import Document

    ctx.ev()
    with warnings.catch_warnings():
        warnings.simplefilter("ignore")
        if ctx.guard(("C07", "cannot_reopen"), case, Document, saved_path) is None:
            return None
    pk = ctx.guard(("C07", "independent_decode_failed"), case, validate.load, saved_path)
    if pk is None:
        return None
    problems = ctx.guard(("C07", "validator_raised"), case, validate.check_package, pk, source_pkg)
    if problems is None:
        return None
    if problems:
        kinds = sorted({k for k, _ in problems})
        ctx.fail(("C07", *kinds[:3]), case, f"{label}: " + " | ".join(m for _, m in problems[:4]))
    n_new = len([i for i in pk["objects"] if source_pkg is None or i not in source_pkg["objects"]])
    ctx.count("new_objects", n_new)
    ctx.count("objects_checked", len(pk["objects"]))
    ctx.count("packages")
    return pk, n_new


def check_fixture(ctx, case):
    from numbers_parser import Document

    src = fixtures.DATA / case["fixture"] if case["fixture"] != "<template>" else template()
    tmp = Path(tempfile.mkdtemp(prefix="vf_c07_"))
    try:
        if case.get("colocate"):
            # the same document with all its tile archives folded into one (the layout of issue-17)
            from vf import layout

            if not layout.colocate_tiles(src, tmp / "colocated.numbers"):
                ctx.count("colocate_not_applicable")
                return
            src = tmp / "colocated.numbers"
            ctx.count("documents_with_tiles_in_one_archive")
        source = validate.load(src)  # harness code on a shipped fixture: a failure here is a harness error, not a violation
        with warnings.catch_warnings():
            warnings.simplefilter("ignore")
            doc = ctx.guard(("C07", "open"), case, Document, src)
            if doc is None:
                return
            if case.get("touch"):
                for sh in doc.sheets:
                    for t in sh.tables:
                        for row in t.rows():
                            for c in row:
                                try:
                                    _ = c.style, c.border, c.formatted_value
                                except Exception:
                                    pass
            p1, p2, p3 = tmp / "a.numbers", tmp / "b.numbers", tmp / "c.numbers"
            if ctx.guard(("C07", "save_raised"), case, lambda: (doc.save(p1), True)[1]) is None:
                return
            r1 = validate_saved(ctx, case, p1, source, f"{case['fixture']} first save")
            if ctx.guard(("C07", "save_raised"), case, lambda: (doc.save(p2), True)[1]) is None:
                return
            r2 = validate_saved(ctx, case, p2, source, f"{case['fixture']} second save of the same document")
            # save of the reopened copy: its source is the first saved package
            if r1 is not None:
                d2 = Document(p1)
                if ctx.guard(("C07", "save_raised"), case, lambda: (d2.save(p3), True)[1]) is not None:
                    validate_saved(ctx, case, p3, r1[0], f"{case['fixture']} save of the reopened copy")
        if r1 is not None and r1[1]:
            ctx.nt((case["fixture"], case.get("touch", False)))
        ctx.sample({"fixture": case["fixture"], "touch": case.get("touch", False), "new_objects": None if r1 is None else r1[1]}, every=7)
    finally:
        shutil.rmtree(tmp, ignore_errors=True)


_TEMPLATE = {}


def template_pkg():
    if "p" not in _TEMPLATE:
        _TEMPLATE["p"] = validate.load(template())
    return _TEMPLATE["p"]


def check_recipe(ctx, case):
    tmp = Path(tempfile.mkdtemp(prefix="vf_c07r_"))
    try:
        with warnings.catch_warnings():
            warnings.simplefilter("ignore")
            doc = ctx.guard(("C07", "build_raised"), case, docgen.build, case["recipe"])
            if doc is None:
                return
            p1, p2 = tmp / "a.numbers", tmp / "b.numbers"
            if ctx.guard(("C07", "save_raised"), case, lambda: (doc.save(p1, package=case.get("package", False)), True)[1]) is None:
                return
        r1 = validate_saved(ctx, case, p1, template_pkg(), "generated document")
        if case.get("twice"):
            with warnings.catch_warnings():
                warnings.simplefilter("ignore")
                if ctx.guard(("C07", "save_raised"), case, lambda: (doc.save(p2), True)[1]) is not None:
                    validate_saved(ctx, case, p2, template_pkg(), "generated document, second save")
        if r1 is not None and r1[1]:
            ctx.nt(case["recipe"])
        ctx.count("generated_documents")
        ctx.sample({"recipe_tables": [[t["rows"], t["cols"], len(t["ops"])] for s in case["recipe"]["sheets"] for t in s["tables"]], "new_objects": None if r1 is None else r1[1]}, every=11)
    finally:
        shutil.rmtree(tmp, ignore_errors=True)


def check_shape(ctx, case):
    from numbers_parser import Document

    rows, cols = case["shape"]
    tmp = Path(tempfile.mkdtemp(prefix="vf_c07s_"))
    try:
        with warnings.catch_warnings():
            warnings.simplefilter("ignore")

            def build():
                doc = Document(num_rows=rows, num_cols=cols, num_header_rows=min(1, rows - 1), num_header_cols=min(1, cols - 1))
                t = doc.sheets[0].tables[0]
                vals = [12, "edge", True, 0.12, "édge"]
                k = 0
                for r in sorted({0, rows - 1, min(rows - 1, 255), min(rows - 1, 256), rows // 2}):
                    for c in sorted({0, cols - 1, min(cols - 1, 255), min(cols - 1, 256), cols // 2}):
                        t.write(r, c, vals[k % len(vals)])
                        k += 1
                doc.save(tmp / "s.numbers")
                return True

            if ctx.guard(("C07", "build_raised"), case, build) is None:
                return
        r = validate_saved(ctx, case, tmp / "s.numbers", template_pkg(), f"shape {rows}x{cols}")
        if r is not None:
            ctx.nt(("shape", rows, cols))
    finally:
        shutil.rmtree(tmp, ignore_errors=True)


QUICK_FIXTURES = ["test-1.numbers", "issue-66-collab.numbers", "test-bullets.numbers", "test-formats.numbers", "issue-14.numbers", "test-new-formulas.numbers",
                  "test-save-1.numbers", "issue-42.numbers", "test-issue-76.numbers", "create-formulas.numbers", "issue-77.numbers", "test-styles.numbers",
                  "test-extra-borders.numbers", "test-pivot.numbers", "issue-7.numbers", "test-issue-75.numbers", "test-custom-formats.numbers", "test-actions.numbers",
                  "issue-69b.numbers", "issue-73.numbers", "test-hlinks.numbers", "issue-43.numbers", "test-package.numbers", "test-7.numbers", "date_formats.numbers", "test-empty-rows.numbers"]
SHAPES_QUICK = [[255, 1], [256, 8], [257, 1], [1, 256], [3, 257]]
SHAPES_ALL = [[r, c] for r in (255, 256, 257, 512) for c in (1, 8)] + [[r, c] for r in (1, 3) for c in (256, 257, 1000)]


def tasks(tier, seed):
    t = []
    names = QUICK_FIXTURES if tier == "quick" else fixtures.SUPPORTED
    for i, name in enumerate(names):
        t.append(("fixture", {"fixture": name, "touch": i % 2 == 0}))
        if tier == "thorough":
            t.append(("fixture", {"fixture": name, "touch": i % 2 == 1}))
    for name in ["<template>", "test-1.numbers", "test-save-1.numbers", "issue-43.numbers"] + ([] if tier == "quick" else ["test-formats.numbers", "issue-14.numbers", "test-3.numbers", "test-issue-76.numbers"]):
        t.append(("fixture", {"fixture": name, "touch": False, "colocate": True}))
    for k in range(16):
        t.append(("recipes", {"n": 4 if tier == "quick" else 50, "seed": derive_seed(seed, "c07", k)}))
    for sh in (SHAPES_QUICK if tier == "quick" else SHAPES_ALL):
        t.append(("shape", {"shape": sh}))
    return t


def run_task(ctx, lane, **kw):
    from hypothesis import Phase

    if lane == "fixture":
        check_fixture(ctx, {"lane": "fixture", "fixture": kw["fixture"], "touch": kw["touch"], **({"colocate": True} if kw.get("colocate") else {})})
    elif lane == "recipes":
        strat = st.tuples(docgen.recipes(max_ops=30), st.booleans(), st.booleans())

        def body(c):
            recipe, twice, package = c
            check_recipe(ctx, {"lane": "recipe", "recipe": recipe, "twice": twice, "package": package})

        run_given(ctx, strat, body, kw["n"], kw["seed"], phases=(Phase.explicit, Phase.generate))
    elif lane == "shape":
        check_shape(ctx, {"lane": "shape", "shape": kw["shape"]})
    else:
        raise ValueError(lane)


def check_case(ctx, case):
    if case["lane"] == "fixture":
        check_fixture(ctx, case)
    elif case["lane"] == "recipe":
        check_recipe(ctx, case)
    else:
        check_shape(ctx, case)
