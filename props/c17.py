"""C17  Damaged or foreign files fail only with the library's own error types."""
import io
import shutil
import sys
import tempfile
import traceback
import warnings
import zipfile
from pathlib import Path

from hypothesis import strategies as st

from vf import docgen, fixtures, iwa, pkg
from vf.core import derive_seed, run_given

ID = "C17"
RULE = (
    "Base files: small fixtures (quick), all supported fixtures + API-generated documents + package-folder forms (thorough). "
    "Faults, Hypothesis-chosen and structure-aware: missing path; wrong suffix; truncation at 0, inside the first local header, "
    "inside a member, at member boundaries, inside/after the central directory, at every 1/64th; 1..8 bit flips uniform and "
    "targeted at local headers / member data / central directory; per member in turn (each .iwa, each plist, Index.zip of a "
    "package): empty, 1..3 bytes, truncated at/off a chunk boundary, marker byte != 0, length field +-1 / huge, snappy payload "
    "replaced by noise, varint header overlong/truncated, ArchiveInfo replaced by noise, message length beyond the segment; "
    "the same document as a folder package and as a single zip holding Index.zip as a member, with the faults above applied to Index.zip (plus bit flips confined to its central directory) or to a loose file; encrypted marker member added; metadata plists missing/garbled/well-formed with values of another type (real, int, data, bool, date, array, dict). Oracle: Document(path) returns or raises FileError / "
    "FileFormatError / UnsupportedError; any other exception is a violation iff the container loader (ObjectStore.__init__ / "
    "IWork.open and below) is on the traceback - later model-layer exceptions are counted as out_of_scope. cat-numbers main() "
    "in-process must exit 0/1 without a traceback for in-scope faults. Non-trivial: the fault changed bytes the loader reads and "
    "the outcome is not the unfaulted document; distinct by (base, fault)."
)
ASSUMPTIONS = [
    "the property limits itself to loading the container; exceptions raised after ObjectStore.__init__ returned are out of scope",
    "warnings are allowed",
]

QUICK_BASES = ["test-1.numbers", "issue-3.numbers", "test-save-1.numbers", "issue-56.numbers", "test-bullets.numbers", "issue-60.numbers",
               "test-hlinks.numbers", "simple-func.numbers"]


def _errs():
    from numbers_parser.exceptions import FileError, FileFormatError, UnsupportedError

    return (FileError, FileFormatError, UnsupportedError)


def loader_on_stack(exc):
    tb = exc.__traceback__
    names = []
    while tb is not None:
        code = tb.tb_frame.f_code
        fn = Path(code.co_filename).name
        names.append((fn, getattr(code, "co_qualname", code.co_name)))
        tb = tb.tb_next
    in_loader = any((fn == "containers.py" and name == "ObjectStore.__init__") or (fn == "iwork.py") for fn, name in names)
    lib = [f"{fn}:{name}" for fn, name in names if fn.endswith(".py") and fn in (
        "containers.py", "iwork.py", "iwafile.py", "model.py", "document.py", "cell.py", "zipfile.py", "__init__.py")]
    return in_loader, (lib[-1] if lib else "?")


# ------------------------------------------------------------------------------------------
# fault application

def zip_layout(data):
    with zipfile.ZipFile(io.BytesIO(data)) as z:
        infos = [(i.filename, i.header_offset, i.compress_size, i.file_size) for i in z.infolist()]
        start_dir = z.start_dir
    return infos, start_dir


def rebuild_zip(data, replace=None, drop=None, add=None):
    """Rewrite the zip with one member replaced / dropped / added (stored, original order)."""
    out = io.BytesIO()
    with zipfile.ZipFile(io.BytesIO(data)) as z, zipfile.ZipFile(out, "w") as w:
        for i in z.infolist():
            if drop and i.filename == drop:
                continue
            body = z.read(i.filename)
            if replace and i.filename == replace[0]:
                body = replace[1]
            w.writestr(zipfile.ZipInfo(i.filename), body)
        if add:
            w.writestr(zipfile.ZipInfo(add[0]), add[1])
    return out.getvalue()


def member_fault(body, f):
    """Apply a per-member fault description to the bytes of one member."""
    kind = f["mkind"]
    noise = bytes((i * 151 + f.get("salt", 7)) % 256 for i in range(64))
    if kind == "empty":
        return b""
    if kind == "short":
        return body[: f["n"]] if f.get("keep") else noise[: f["n"]]
    if kind == "truncate":
        return body[: max(0, min(len(body) - 1, f["at"] % max(1, len(body))))]
    if kind == "truncate_chunk_boundary":
        try:
            first = 4 + int.from_bytes(body[1:4], "little")
        except Exception:
            first = len(body) // 2
        return body[: min(len(body), first + f.get("delta", 0))]
    if kind == "marker":
        return bytes([f["value"] or 1]) + body[1:]
    if kind == "length":
        ln = int.from_bytes(body[1:4], "little")
        new = {"plus": ln + 1, "minus": max(0, ln - 1), "huge": 0xFFFFFF, "zero": 0}[f["how"]]
        return body[:1] + new.to_bytes(3, "little") + body[4:]
    if kind == "payload_noise":
        ln = int.from_bytes(body[1:4], "little")
        return body[:4] + (noise * (ln // 64 + 1))[:ln] + body[4 + ln:]
    if kind in ("varint_overlong", "varint_truncated", "archiveinfo_noise", "message_length_beyond", "no_segments", "bad_type") or kind in HEADER_FAULTS:
        try:
            S, _, _ = iwa.stream_of(body, allow_stored=False)
            segs = iwa.parse_segments(S)
        except Exception:
            return noise
        if kind == "varint_overlong":
            S2 = b"\xff" * 11 + S
        elif kind == "varint_truncated":
            S2 = S + b"\x80"
        elif kind == "archiveinfo_noise":
            h = segs[0]["header"]
            S2 = S[: len(segs[0]["header_len_varint"])] + noise[: len(h)].ljust(len(h), b"\xaa") + S[len(segs[0]["header_len_varint"]) + len(h):]
        elif kind == "message_length_beyond":
            seg = segs[-1]
            mtype = seg["infos"][0][0] or 1
            body0 = seg["messages"][0]
            header = b"\x08" + iwa.write_varint(seg["identifier"] or 1) + b"\x12"
            mi = b"\x08" + iwa.write_varint(mtype) + b"\x18" + iwa.write_varint(len(body0) + 1000)
            header += iwa.write_varint(len(mi)) + mi
            bad = iwa.write_varint(len(header)) + header + body0
            S2 = S + bad
        elif kind == "bad_type":
            body0 = b"\x08\x01"
            header = b"\x08" + iwa.write_varint(987654) + b"\x12"
            mi = b"\x08" + iwa.write_varint(999_999) + b"\x18" + iwa.write_varint(len(body0))
            header += iwa.write_varint(len(mi)) + mi
            S2 = S + iwa.write_varint(len(header)) + header + body0
        elif kind in HEADER_FAULTS:
            # a well-framed segment whose header (ArchiveInfo) is valid protobuf but not a usable header
            ident = b"\x08" + iwa.write_varint(987_000 + f.get("salt", 0))
            mi_ok = b"\x08\x01\x18\x02"
            header, payload = {
                "header_no_message_infos": (ident, b""),
                "header_empty": (b"", b""),
                "header_no_identifier": (b"\x12" + iwa.write_varint(len(mi_ok)) + mi_ok, b"\x08\x01"),
                "header_message_info_empty": (ident + b"\x12\x00", b""),
                "header_message_info_no_type": (ident + b"\x12\x02\x18\x02", b"\x08\x01"),
                "header_identifier_as_bytes": (b"\x0a\x01\x05" + b"\x12" + iwa.write_varint(len(mi_ok)) + mi_ok, b"\x08\x01"),
                "header_unknown_fields_only": (b"\xf8\x07\x01", b""),
                "header_cut_in_field": ((ident + b"\x12" + iwa.write_varint(len(mi_ok)) + mi_ok)[:-1], b""),
            }[kind]
            bad = iwa.write_varint(len(header)) + header + payload
            place = f.get("place", "append")
            S2 = {"append": S + bad, "first": bad + S, "only": bad}[place]
        else:
            S2 = b""
        import snappy

        return iwa.build_file(S2, compressor=snappy.compress) if S2 else b""
    if kind == "plist_retype":
        # a well-formed property list whose values are of another type than the library expects
        import datetime as _dt
        import plistlib

        try:
            d = plistlib.loads(body)
        except Exception:
            return noise
        val = {"real": 14.1, "int": 14, "data": b"14.1", "bool": True, "date": _dt.datetime(2020, 1, 2), "array": ["14", "1"], "dict": {"v": "14.1"}}[f.get("how", "real")]
        if isinstance(d, dict):
            d = {k_: (val if isinstance(v, str) else v) for k_, v in d.items()}
        else:
            d = val
        return plistlib.dumps(d, fmt=plistlib.FMT_BINARY if f.get("salt", 0) % 2 else plistlib.FMT_XML)
    if kind == "garble":
        b = bytearray(body)
        for k in range(0, len(b), max(1, len(b) // 8)):
            b[k] ^= 0x5A
        return bytes(b)
    raise ValueError(kind)


def apply_fault(base_bytes, fault, tmp):
    """-> path to open"""
    kind = fault["kind"]
    path = tmp / "f.numbers"
    if kind == "missing":
        how = fault.get("how", "plain")
        if how == "long_name":        # no such file, and no such file can exist
            return tmp / ("a" * 300 + ".numbers")
        if how == "below_file":
            (tmp / "plain.numbers").write_bytes(base_bytes)
            return tmp / "plain.numbers" / "inner.numbers"
        if how == "missing_dir":
            return tmp / "no" / "such" / "dir" / "f.numbers"
        return tmp / "does-not-exist.numbers"
    if kind == "suffix":
        p = tmp / ("f" + fault["suffix"])
        p.write_bytes(base_bytes)
        return p
    if kind == "truncate":
        path.write_bytes(base_bytes[: fault["at"]])
        return path
    if kind == "flips":
        b = bytearray(base_bytes)
        for off, bit in fault["flips"]:
            b[off % len(b)] ^= 1 << (bit % 8)
        path.write_bytes(bytes(b))
        return path
    if kind == "member":
        with zipfile.ZipFile(io.BytesIO(base_bytes)) as z:
            body = z.read(fault["member"])
        path.write_bytes(rebuild_zip(base_bytes, replace=(fault["member"], member_fault(body, fault))))
        return path
    if kind == "drop_member":
        path.write_bytes(rebuild_zip(base_bytes, drop=fault["member"]))
        return path
    if kind == "encrypted_marker":
        path.write_bytes(rebuild_zip(base_bytes, add=(".iwph", b"\x00" * 16)))
        return path
    if kind in ("package", "nested"):
        # folder form: Index.zip (all Index/*) + loose other files, then a fault on Index.zip or a loose file;
        # "nested" is the same content as one zip file that holds Index.zip as a member (old single-file layout)
        folder = tmp / "p.numbers"
        if kind == "package":
            folder.mkdir()
        items = pkg.members(io.BytesIO(base_bytes)) if False else None
        with zipfile.ZipFile(io.BytesIO(base_bytes)) as z:
            index_items = [(n, z.read(n)) for n in z.namelist() if n.startswith("Index/")]
            others = [(n, z.read(n)) for n in z.namelist() if not n.startswith("Index/")]
        buf = io.BytesIO()
        with zipfile.ZipFile(buf, "w") as w:
            for n, d in index_items:
                w.writestr(zipfile.ZipInfo(n), d)
        index_zip = buf.getvalue()
        sub = fault["sub"]
        if sub["kind"] == "truncate":
            index_zip = index_zip[: sub["at"] % max(1, len(index_zip))]
        elif sub["kind"] == "flips":
            b = bytearray(index_zip)
            for off, bit in sub["flips"]:
                b[off % len(b)] ^= 1 << (bit % 8)
            index_zip = bytes(b)
        elif sub["kind"] == "member":
            with zipfile.ZipFile(io.BytesIO(index_zip)) as z:
                body = z.read(sub["member"])
            index_zip = rebuild_zip(index_zip, replace=(sub["member"], member_fault(body, sub)))
        elif sub["kind"] == "cd_flips":
            # bits flipped inside the central directory of Index.zip (names, version and flag bytes, offsets)
            _infos, start_dir = zip_layout(index_zip)
            b = bytearray(index_zip)
            span = max(1, len(b) - start_dir)
            for off, bit in sub["flips"]:
                b[start_dir + off % span] ^= 1 << (bit % 8)
            index_zip = bytes(b)
        elif sub["kind"] == "empty_index":
            index_zip = b""
        elif sub["kind"] == "none":
            pass
        if kind == "nested":
            out = io.BytesIO()
            with zipfile.ZipFile(out, "w") as w:
                w.writestr(zipfile.ZipInfo("Index.zip"), index_zip)
                for n, d in others:
                    if n.endswith("/") or (sub["kind"] == "drop_loose" and n == sub["member"]):
                        continue
                    if sub["kind"] == "garble_loose" and n == sub["member"]:
                        d = member_fault(d, {"mkind": "garble"})
                    w.writestr(zipfile.ZipInfo(n), d)
            data = out.getvalue()
            if fault.get("outer"):
                # bits flipped in the outer zip's own records of the Index.zip member: its local file header (the member is the
                # first one, at offset 0) and its central-directory entry (the first entry)
                _infos, start_dir = zip_layout(data)
                b = bytearray(data)
                for where, off, bit in fault["outer"]:
                    base_off, span = (0, 30 + len("Index.zip")) if where == "local" else (start_dir, 46 + len("Index.zip"))
                    b[base_off + off % span] ^= 1 << (bit % 8)
                data = bytes(b)
            path.write_bytes(data)
            return path
        (folder / "Index.zip").write_bytes(index_zip)
        for n, d in others:
            if n.endswith("/"):
                (folder / n).mkdir(parents=True, exist_ok=True)   # a zip that lists its directories (issue-32)
                continue
            if sub["kind"] == "drop_loose" and n == sub["member"]:
                continue
            if sub["kind"] == "garble_loose" and n == sub["member"]:
                d = member_fault(d, {"mkind": "garble"})
            p = folder / n
            p.parent.mkdir(parents=True, exist_ok=True)
            p.write_bytes(d)
        return folder
    raise ValueError(kind)


# ------------------------------------------------------------------------------------------
# oracle

def check_fault(ctx, case, base_bytes=None):
    from numbers_parser import Document

    errs = _errs()
    if base_bytes is None:
        base_bytes = load_base(case)
    tmp = Path(tempfile.mkdtemp(prefix="vf_c17_"))
    try:
        try:
            path = apply_fault(base_bytes, case["fault"], tmp)
        except (KeyError, zipfile.BadZipFile, ValueError, IndexError):
            ctx.count("fault_not_applicable")
            return
        ctx.ev()
        outcome = "document"
        try:
            with warnings.catch_warnings():
                warnings.simplefilter("ignore")
                Document(path)
        except errs as e:
            outcome = type(e).__name__
        except RecursionError as e:
            outcome = "RecursionError"
            ctx.fail(("C17", "foreign_exception", "RecursionError"), case, "RecursionError while loading")
        except MemoryError:
            ctx.count("inconclusive_memory")
            return
        except Exception as e:
            in_loader, where = loader_on_stack(e)
            if in_loader:
                ctx.fail(("C17", "foreign_exception", type(e).__name__, where, case["fault"]["kind"], case["fault"].get("mkind", "")), case,
                         f"Document() on {describe(case)} raised {type(e).__name__}: {str(e)[:120]} (innermost library frame {where})")
                outcome = "known:" + type(e).__name__
            else:
                ctx.count("out_of_scope_" + type(e).__name__)
                outcome = "out_of_scope"
        ctx.count("outcome_" + outcome)
        ctx.count("fault_" + case["fault"]["kind"] + ("_" + case["fault"].get("mkind", "") if case["fault"]["kind"] == "member" else ""))
        if outcome != "document":
            ctx.nt((case.get("base"), repr(case["fault"])))
        # the bundled CLI on a sample of faults: exit 0/1, no traceback for in-scope faults
        if case.get("cli"):
            check_cli(ctx, case, path, errs)
        ctx.sample({"base": case.get("base"), "fault": case["fault"], "outcome": outcome}, every=157)
    finally:
        shutil.rmtree(tmp, ignore_errors=True)


def check_cli(ctx, case, path, errs):
    from numbers_parser import _cat_numbers

    argv, out, err = sys.argv, sys.stdout, sys.stderr
    sys.argv = ["cat-numbers", "-b", str(path)]
    sys.stdout, sys.stderr = io.StringIO(), io.StringIO()
    status = 0
    try:
        ctx.ev()
        try:
            with warnings.catch_warnings():
                warnings.simplefilter("ignore")
                _cat_numbers.main()
        except SystemExit as e:
            status = e.code if isinstance(e.code, int) else (0 if e.code is None else 1)
        except Exception as e:
            in_loader, where = loader_on_stack(e)
            if in_loader:
                sys.argv, sys.stdout, sys.stderr = argv, out, err
                ctx.fail(("C17", "cli_traceback", type(e).__name__, where, case["fault"]["kind"], case["fault"].get("mkind", "")), case,
                         f"cat-numbers on {describe(case)} crashed with {type(e).__name__}: {str(e)[:100]}")
            else:
                ctx.count("cli_out_of_scope")
            return
        if status not in (0, 1):
            sys.argv, sys.stdout, sys.stderr = argv, out, err
            ctx.fail(("C17", "cli_status"), case, f"cat-numbers exit status {status}")
        ctx.count(f"cli_exit_{status}")
    finally:
        sys.argv, sys.stdout, sys.stderr = argv, out, err


def describe(case):
    f = dict(case["fault"])
    return f"{case.get('base')} with fault {f}"


def load_base(case):
    if "recipe" in case:
        tmp = Path(tempfile.mkdtemp(prefix="vf_c17b_"))
        try:
            with warnings.catch_warnings():
                warnings.simplefilter("ignore")
                docgen.build(case["recipe"]).save(tmp / "b.numbers")
            return (tmp / "b.numbers").read_bytes()
        finally:
            shutil.rmtree(tmp, ignore_errors=True)
    p = fixtures.DATA / case["base"]
    if p.is_dir():
        # folder fixture -> single-file form
        buf = io.BytesIO()
        with zipfile.ZipFile(buf, "w") as w:
            for n, d in pkg.members(p):
                w.writestr(zipfile.ZipInfo(n), d)
        return buf.getvalue()
    return p.read_bytes()


# ------------------------------------------------------------------------------------------
# generators

HEADER_FAULTS = ["header_no_message_infos", "header_empty", "header_no_identifier", "header_message_info_empty", "header_message_info_no_type",
                 "header_identifier_as_bytes", "header_unknown_fields_only", "header_cut_in_field"]
MEMBER_FAULTS = HEADER_FAULTS + ["empty", "short", "truncate", "truncate_chunk_boundary", "marker", "length", "payload_noise", "varint_overlong", "varint_truncated",
                 "archiveinfo_noise", "message_length_beyond", "bad_type", "no_segments", "garble"]


def member_fault_strategy(names):
    def one(mkind):
        base = {"mkind": st.just(mkind), "member": st.sampled_from(names), "salt": st.integers(0, 255)}
        if mkind == "short":
            base.update({"n": st.integers(1, 3), "keep": st.booleans()})
        elif mkind == "truncate":
            base.update({"at": st.integers(1, 1 << 20)})
        elif mkind == "truncate_chunk_boundary":
            base.update({"delta": st.sampled_from([-1, 0, 1, 2, 5])})
        elif mkind == "marker":
            base.update({"value": st.integers(1, 255)})
        elif mkind == "length":
            base.update({"how": st.sampled_from(["plus", "minus", "huge", "zero"])})
        elif mkind in HEADER_FAULTS:
            base.update({"place": st.sampled_from(["append", "first", "only"])})
        return st.fixed_dictionaries(base)

    return st.sampled_from(MEMBER_FAULTS).flatmap(one)


def fault_strategy(base_bytes):
    infos, start_dir = zip_layout(base_bytes)
    n = len(base_bytes)
    names = [i[0] for i in infos]
    iwas = [x for x in names if x.endswith(".iwa")] or names
    plists = [x for x in names if x.endswith(".plist")] or names
    boundaries = sorted({i[1] for i in infos} | {start_dir})
    inside_member = st.sampled_from(infos).flatmap(lambda i: st.integers(i[1] + 30, max(i[1] + 31, i[1] + 30 + len(i[0]) + max(1, i[2]))))
    trunc = st.one_of(st.just(0), st.integers(1, 29), inside_member, st.sampled_from(boundaries), st.integers(start_dir, n - 1),
                      st.integers(0, 63).map(lambda k: k * n // 64), st.just(n - 1), st.just(n - 22))
    flip_offsets = st.one_of(st.integers(0, n - 1), st.sampled_from(infos).flatmap(lambda i: st.integers(i[1], i[1] + 29)), inside_member,
                             st.integers(start_dir, n - 1))
    flips = st.lists(st.tuples(flip_offsets, st.integers(0, 7)), min_size=1, max_size=8).map(lambda l: [list(x) for x in l])
    mf = member_fault_strategy(iwas).map(lambda d: {"kind": "member", **d})
    mf_plist = st.fixed_dictionaries({"kind": st.just("member"), "mkind": st.sampled_from(["empty", "garble", "short", "truncate", "plist_retype"]),
                                      "member": st.sampled_from(plists), "n": st.integers(1, 3), "keep": st.booleans(), "at": st.integers(1, 4000),
                                      "salt": st.integers(0, 255), "how": st.sampled_from(["real", "int", "data", "bool", "date", "array", "dict"])})
    sub = st.one_of(
        st.fixed_dictionaries({"kind": st.just("truncate"), "at": st.integers(0, 1 << 22)}),
        st.fixed_dictionaries({"kind": st.just("flips"), "flips": st.lists(st.tuples(st.integers(0, 1 << 22), st.integers(0, 7)), min_size=1, max_size=4).map(lambda l: [list(x) for x in l])}),
        member_fault_strategy(iwas).map(lambda d: {"kind": "member", **d}),
        st.just({"kind": "empty_index"}), st.just({"kind": "none"}),
        st.fixed_dictionaries({"kind": st.just("cd_flips"), "flips": st.lists(st.tuples(st.integers(0, 1 << 16), st.integers(0, 7)), min_size=1, max_size=3).map(lambda l: [list(x) for x in l])}),
        st.fixed_dictionaries({"kind": st.just("cd_flips"), "flips": st.lists(st.tuples(st.integers(0, 1 << 16), st.just(7)), min_size=1, max_size=2).map(lambda l: [list(x) for x in l])}),
        st.fixed_dictionaries({"kind": st.sampled_from(["drop_loose", "garble_loose"]), "member": st.sampled_from(plists)}),
    )
    return st.one_of(
        st.fixed_dictionaries({"kind": st.just("missing"), "how": st.sampled_from(["plain", "long_name", "below_file", "missing_dir"])}),
        st.fixed_dictionaries({"kind": st.just("suffix"), "suffix": st.sampled_from([".numberz", ".zip", "", ".NUMBERS", ".pages"])}),
        st.fixed_dictionaries({"kind": st.just("truncate"), "at": trunc}),
        st.fixed_dictionaries({"kind": st.just("truncate"), "at": trunc}),
        st.fixed_dictionaries({"kind": st.just("flips"), "flips": flips}),
        st.fixed_dictionaries({"kind": st.just("flips"), "flips": flips}),
        mf, mf, mf, mf_plist,
        st.fixed_dictionaries({"kind": st.just("drop_member"), "member": st.sampled_from(names)}),
        st.just({"kind": "encrypted_marker"}),
        st.fixed_dictionaries({"kind": st.just("package"), "sub": sub}),
        st.fixed_dictionaries({"kind": st.just("nested"), "sub": sub}),
        st.fixed_dictionaries({"kind": st.just("nested"), "sub": sub}),
        st.fixed_dictionaries({"kind": st.just("nested"), "sub": st.just({"kind": "none"}),
                               "outer": st.lists(st.tuples(st.sampled_from(["local", "central"]), st.integers(0, 54), st.integers(0, 7)), min_size=1, max_size=2).map(lambda l: [list(x) for x in l])}),
    )


def tasks(tier, seed):
    t = []
    bases = QUICK_BASES if tier == "quick" else fixtures.SUPPORTED
    per = 320 if tier == "quick" else 500
    for b in bases:
        t.append(("faults", {"base": b, "n": per, "seed": derive_seed(seed, "c17", b)}))
        nparts = 2 if tier == "quick" else 4
        for part in range(nparts):
            t.append(("member_sweep", {"base": b, "part": part, "nparts": nparts}))
    for b in bases[:2] if tier == "quick" else bases[:8]:
        t.append(("nested_header_sweep", {"base": b}))
    for k in range(2 if tier == "quick" else 16):
        t.append(("generated", {"n": 2 if tier == "quick" else 8, "per": 60 if tier == "quick" else 300, "seed": derive_seed(seed, "c17g", k)}))
    return t


def run_task(ctx, lane, **kw):
    if lane == "faults":
        base_bytes = load_base({"base": kw["base"]})
        k = [0]

        def body(fault):
            k[0] += 1
            check_fault(ctx, {"lane": "fault", "base": kw["base"], "fault": fault, "cli": k[0] % 10 == 0}, base_bytes)

        run_given(ctx, fault_strategy(base_bytes), body, kw["n"], kw["seed"])
    elif lane == "member_sweep":
        # every archive member in turn x every member fault kind (enumerated)
        base_bytes = load_base({"base": kw["base"]})
        infos, _ = zip_layout(base_bytes)
        for name in [i[0] for i in infos if i[0].endswith((".iwa", ".plist"))]:
            for mkind in MEMBER_FAULTS[kw.get("part", 0)::kw.get("nparts", 2)] if "part" in kw else MEMBER_FAULTS:
                f = {"kind": "member", "mkind": mkind, "member": name, "salt": 3, "n": 2, "keep": False, "at": 17, "delta": 0, "value": 1, "how": "plus"}
                if name.endswith(".plist") and mkind not in ("empty", "garble", "short", "truncate"):
                    continue
                check_fault(ctx, {"lane": "fault", "base": kw["base"], "fault": f, "cli": mkind in ("empty", "short")}, base_bytes)
                ctx.count("member_sweep")
            if name.endswith(".plist") and kw.get("part", 0) == 0:
                for how in ("real", "int", "data", "bool", "date", "array", "dict"):
                    f = {"kind": "member", "mkind": "plist_retype", "member": name, "salt": len(how), "how": how}
                    check_fault(ctx, {"lane": "fault", "base": kw["base"], "fault": f, "cli": how == "real"}, base_bytes)
                    ctx.count("member_sweep")
    elif lane == "nested_header_sweep":
        # the document as one zip that holds Index.zip as a member: every single-bit flip in the outer zip's local header and
        # central-directory entry of that member (39 + 55 bytes)
        base_bytes = load_base({"base": kw["base"]})
        for where, span in (("local", 39), ("central", 55)):
            for off in range(span):
                for bit in range(8):
                    f = {"kind": "nested", "sub": {"kind": "none"}, "outer": [[where, off, bit]]}
                    check_fault(ctx, {"lane": "fault", "base": kw["base"], "fault": f, "cli": False}, base_bytes)
                    ctx.count("nested_header_sweep")
    elif lane == "generated":
        from hypothesis import Phase

        def body(recipe):
            case0 = {"recipe": recipe}
            base_bytes = load_base(case0)
            ctx.count("generated_bases")
            inner_seed = derive_seed(kw["seed"], repr(recipe)[:200])

            def inner(fault):
                check_fault(ctx, {"lane": "fault", "base": "generated", "recipe": recipe, "fault": fault}, base_bytes)

            run_given(ctx, fault_strategy(base_bytes), inner, kw["per"], inner_seed)

        run_given(ctx, docgen.recipes(max_ops=12, max_sheets=1, max_tables=2), body, kw["n"], kw["seed"], phases=(Phase.explicit, Phase.generate))
    else:
        raise ValueError(lane)


def check_case(ctx, case):
    check_fault(ctx, case)
