"""C05  IWA archive decoding and encoding are mutually inverse and chunking-independent."""
import glob
import shutil
import tempfile
import warnings
from pathlib import Path

from hypothesis import strategies as st

from vf import docgen, iwa, pkg
from vf.core import derive_seed, jhash, run_given

ID = "C05"
RULE = (
    "(i) every .iwa member of every file under tests/data that the independent codec (vf/iwa.py: own snappy inflater, own "
    "varint/wire parser) accepts as well-formed, and of the bundled template (~5200 files, 118 multi-chunk); (ii) archives "
    "of documents generated through the editing API; (iii) synthetic archives built independently from real message bodies "
    "with unknown fields appended, ArchiveInfo headers of every size 20..299 and 16370..16399 bytes (padded with object references; the header's length prefix is a varint), 1..40 segments, multi-message segments, merge segments (one in five: 1..3 full messages followed by 1..3 patches, each a partial message - a subset of the fields - of the class of the message its base_message_index names, index 0 explicit or omitted), stream sizes drawn around 0, 1, 65535, 65536, "
    "65537, 131071..131073, 200k; (iv) for each stream, re-chunkings at Hypothesis-chosen cut points (1 byte .. 64 KiB "
    "pieces), each chunk compressed (literal-only or real snappy) or stored. Oracle: with S the independently inflated "
    "stream, stream(IWAFile.from_buffer(b).to_buffer()) == S byte for byte; segments parsed independently from the output "
    "equal the input's; decode(rechunk(S)) re-encodes to S; every encoded file obeys the container predicate (marker 0x00, "
    "3-byte length == payload length, every chunk is snappy and inflates to <= 65536 bytes, message_info lengths == message "
    "sizes, varint header length == header size). Non-trivial: stream > one chunk, or unknown fields, or a multi-message "
    "segment, or a non-default cut vector; distinct by stream hash + cut vector."
)
ASSUMPTIONS = [
    "python-snappy/cramjam and protobuf are trusted as libraries; the oracle side uses neither",
    "a stored chunk whose bytes are themselves valid snappy is ambiguous in the format; such cuts are redrawn and counted",
    "members the independent codec rejects (deliberately corrupted fixtures) are outside 'well-formed' and only counted",
]


def _lib():
    from numbers_parser.iwafile import IWAFile

    return IWAFile


def container_ok(ctx, case, out):
    """Container predicate on an encoded file; returns its stream."""
    try:
        payloads = iwa.split_chunks(out)
    except iwa.FormatError as e:
        ctx.fail(("C05", "container", "framing"), case, f"encoded file is not well framed: {e}")
        return None
    parts = []
    for i, p in enumerate(payloads):
        try:
            d = iwa.snappy_decompress(p)
        except (iwa.FormatError, IndexError) as e:
            ctx.fail(("C05", "container", "chunk_not_snappy"), case, f"chunk {i} of the encoded file does not inflate: {e}")
            return None
        if len(d) > iwa.CHUNK:
            ctx.fail(("C05", "container", "chunk_too_large"), case, f"chunk {i} inflates to {len(d)} bytes (> 65536)")
        if len(d) == 0:
            ctx.fail(("C05", "container", "empty_chunk"), case, f"chunk {i} is empty")
        parts.append(d)
    s = b"".join(parts)
    try:
        iwa.parse_segments(s)
    except iwa.FormatError as e:
        ctx.fail(("C05", "container", "segment_lengths"), case, f"encoded stream does not parse: {e}")
        return None
    return s


def first_diff(a, b):
    n = min(len(a), len(b))
    for i in range(n):
        if a[i] != b[i]:
            return i
    return n


def check_roundtrip(ctx, IWAFile, case, data, S, label):
    """decode(data) -> encode -> must reproduce S."""
    ctx.ev()

    def go():
        f = IWAFile.from_buffer(data, label)
        return f.to_buffer()

    out = ctx.guard(("C05", "codec", case.get("variant", "original")), case, go)
    if out is None:
        return
    s2 = container_ok(ctx, case, out)
    if s2 is None:
        return
    if s2 != S:
        i = first_diff(s2, S)
        if "unknown_field_between_known" in (case.get("flags") or ()) and only_reordered(s2, S):
            ctx.fail(("C05", "unknown_field_moved"), case, f"{label}: a field the schema does not know, stored between known fields, is written after them when re-encoded "
                                                           f"(same fields, other byte order; first difference at byte {i})")
            return
        ctx.fail(("C05", "stream_differs", case.get("variant", "original")), case,
                 f"{label}: re-encoded stream differs from the input stream at byte {i} (lengths {len(s2)} vs {len(S)})")


def check_edited(ctx, IWAFile, label, data, pick, blob):
    """Decode, grow one object (an appended unknown field changes its size), encode: the header lengths of
    the encoded stream must follow (message_info.length == message size) and nothing else may change."""
    case = {"lane": "edited", "label": label, "pick": pick, "blob": blob.hex()}
    try:
        S, _, _ = iwa.stream_of(data, allow_stored=False)
        segs = iwa.parse_segments(S)
    except (iwa.FormatError, IndexError):
        return
    if not segs:
        return
    ctx.ev()
    extra = unknown_field(1, 0, blob)

    def go():
        f = IWAFile.from_buffer(data, label)
        archives = f.chunks[0].archives
        a = archives[pick % len(archives)]
        a.objects[0].MergeFromString(extra)
        return f.to_buffer(), pick % len(archives)

    res = ctx.guard(("C05", "edited"), case, go)
    if res is None:
        return
    out, idx = res
    s2 = container_ok(ctx, case, out)
    if s2 is None:
        return
    segs2 = iwa.parse_segments(s2)
    if len(segs2) != len(segs):
        ctx.fail(("C05", "edited_segment_count"), case, f"{label}: {len(segs)} segments before, {len(segs2)} after editing one object")
    for k, (a, b) in enumerate(zip(segs, segs2)):
        want = list(a["messages"])
        if k == idx:
            want[0] = want[0] + extra
        if b["messages"] != want:
            ctx.fail(("C05", "edited_message_bytes"), case, f"{label}: segment {k} (id {a['identifier']}) messages differ after editing segment {idx}")
        if [ln for _, ln in b["infos"]] != [len(m) for m in want]:
            ctx.fail(("C05", "edited_stale_length"), case, f"{label}: segment {k} header lengths {[ln for _, ln in b['infos']]} != message sizes {[len(m) for m in want]}")
    ctx.count("edited_archives")
    ctx.nt(jhash(["edited", label, pick, blob.hex()]))


def real_snappy(piece):
    import snappy

    return snappy.compress(piece)


def rechunk_variants(ctx, IWAFile, case, S, label, cutsets):
    for k, (cuts, comp, stored_mask) in enumerate(cutsets):
        compressor = real_snappy if comp == "snappy" else None
        if stored_mask and any(stored_mask):
            # ambiguity check for stored pieces
            bounds = [0] + sorted(set(c for c in cuts if 0 < c < len(S))) + [len(S)]
            amb = False
            for i in range(len(bounds) - 1):
                if stored_mask[i % len(stored_mask)]:
                    piece = S[bounds[i]:bounds[i + 1]]
                    if iwa.is_valid_snappy(piece) or _lib_accepts_snappy(piece):
                        amb = True
            if amb:
                ctx.count("excluded_by_construction_ambiguous_stored")
                continue
            if any(b2 - b1 >= (1 << 24) for b1, b2 in zip(bounds, bounds[1:])):
                continue
        try:
            data = iwa.build_file(S, cuts, compressor, stored_mask)
        except iwa.FormatError:
            continue
        sub = {**case, "variant": "rechunk", "cuts": list(cuts), "ncuts": len(cuts), "comp": comp, "stored_mask": stored_mask}
        check_roundtrip(ctx, IWAFile, sub, data, S, label)
        ctx.count("rechunked")
        if stored_mask and any(stored_mask):
            ctx.count("rechunked_with_stored")
        ctx.nt(jhash([jhash(S.hex() if len(S) < 4096 else [len(S), S[:64].hex(), S[-64:].hex()]), list(cuts)[:50], comp, stored_mask]))


def _lib_accepts_snappy(piece):
    import snappy

    try:
        snappy.uncompress(piece)
        return True
    except Exception:
        return False


@st.composite
def cutsets(draw, n, size):
    out = []
    for _ in range(n):
        style = draw(st.sampled_from(["few", "many", "boundary", "tiny", "one"]))
        if size <= 1:
            cuts = []
        elif style == "few":
            cuts = draw(st.lists(st.integers(1, size - 1), max_size=4))
        elif style == "many":
            step = draw(st.integers(max(1, size // 200), max(2, min(size, 65536))))
            cuts = list(range(step, size, step))[:400]
        elif style == "boundary":
            cuts = [c for c in (65535, 65536, 65537, 131072, 1, size - 1) if 0 < c < size]
        elif style == "tiny":
            a = draw(st.integers(0, max(0, size - 2)))
            cuts = [c for c in range(a + 1, min(size, a + 12))]
        else:
            cuts = []
        # keep every piece <= 64 KiB (a chunk must not inflate to more)
        full = sorted(set(cuts))
        bounds = [0] + full + [size]
        extra = []
        for b1, b2 in zip(bounds, bounds[1:]):
            p = b1 + 65536
            while p < b2:
                extra.append(p)
                p += 65536
        cuts = sorted(set(full + extra))
        comp = draw(st.sampled_from(["literal", "snappy"]))
        stored = draw(st.one_of(st.none(), st.lists(st.booleans(), min_size=1, max_size=5)))
        out.append((cuts, comp, stored))
    return out


def check_member(ctx, IWAFile, label, data, nrechunk, seed):
    """One archive file: original round trip + re-chunkings."""
    case = {"lane": "member", "label": label}
    try:
        S, sizes, stored = iwa.stream_of(data, allow_stored=False)
        segs = iwa.parse_segments(S)
    except (iwa.FormatError, IndexError):
        ctx.count("not_well_formed_excluded")
        return False
    ctx.count("archives")
    if len(sizes) > 1:
        ctx.count("multi_chunk_archives")
        ctx.nt(jhash(["multi", label, len(S)]))
    if any(len(s["infos"]) > 1 for s in segs):
        ctx.count("multi_message_archives")
        ctx.nt(jhash(["multimsg", label, len(S)]))
    ctx.count("segments", len(segs))
    check_roundtrip(ctx, IWAFile, case, data, S, label)
    if nrechunk:
        def body(cs):
            rechunk_variants(ctx, IWAFile, case, S, label, cs)

        from hypothesis import Phase

        run_given(ctx, cutsets(nrechunk, len(S)), body, 1, seed, phases=(Phase.explicit, Phase.generate))
    ctx.sample({"lane": "member", "label": label, "stream_bytes": len(S), "chunks": len(sizes), "segments": len(segs)}, every=401)
    return True


# ------------------------------------------------------------------------------------------
# synthetic archives

def message_pool():
    from numbers_parser.constants import DEFAULT_DOCUMENT

    pool = []
    for name, data in pkg.iwa_members(str(DEFAULT_DOCUMENT)):
        S, _, _ = iwa.stream_of(data)
        for seg in iwa.parse_segments(S):
            for (mtype, _ln), body in zip(seg["infos"], seg["messages"]):
                if mtype and len(body) < 3000:
                    pool.append((mtype, body))
    return pool


def unknown_field(kind, n, blob):
    if kind == 0:
        return iwa.write_varint((15000 << 3) | 0) + iwa.write_varint(n)
    if kind == 1:
        return iwa.write_varint((15001 << 3) | 2) + iwa.write_varint(len(blob)) + blob
    if kind == 2:
        return iwa.write_varint((15002 << 3) | 5) + (n % (1 << 32)).to_bytes(4, "little")
    return iwa.write_varint((15003 << 3) | 1) + (n % (1 << 64)).to_bytes(8, "little")


def unknown_in_order(mtype, body, n):
    """body with one varint field, whose number the bundled schema of `mtype` does not have, inserted before the first
    field of a higher number (None if the schema has no gap below the highest field present)."""
    from numbers_parser.generated.mapping import ID_NAME_MAP

    cls = ID_NAME_MAP.get(mtype)
    if cls is None or not hasattr(cls, "DESCRIPTOR"):
        return None
    known = set(cls.DESCRIPTOR.fields_by_number)
    try:
        fields = iwa.wire_fields(body)
    except Exception:
        return None
    present = [f[0] for f in fields]
    if not present or present != sorted(present):
        return None
    ranges = [tuple(r) if isinstance(r, (tuple, list)) else (r.start, r.end) for r in getattr(cls.DESCRIPTOR, "extension_ranges", [])]
    free = [k for k in range(1, max(present)) if k not in known and k not in present and not any(lo <= k < hi for lo, hi in ranges)]
    if not free:
        return None
    k = free[n % len(free)]
    out, done = b"", False
    for fno, _wt, _val, raw in fields:
        if not done and fno > k:
            out += iwa.write_varint((k << 3) | 0) + iwa.write_varint(n)
            done = True
        out += raw
    return out if done else None


def only_reordered(s2, S):
    """True when the two streams have the same segments and every message holds the same fields, in another order."""
    try:
        a, b = iwa.parse_segments(s2), iwa.parse_segments(S)
    except Exception:
        return False
    if len(a) != len(b):
        return False
    for x, y in zip(a, b):
        if x["identifier"] != y["identifier"] or x["infos"] != y["infos"] or len(x["messages"]) != len(y["messages"]):
            return False
        for m1, m2 in zip(x["messages"], y["messages"]):
            if m1 != m2 and sorted(f[3] for f in iwa.wire_fields(m1)) != sorted(f[3] for f in iwa.wire_fields(m2)):
                return False
    return True


@st.composite
def synthetic(draw, pool):
    nseg = draw(st.integers(0, 40))
    target = draw(st.sampled_from([None, 0, 1, 65535, 65536, 65537, 131071, 131072, 131073, 200_000, 70_000, 4000]))
    segs = []
    flags = set()
    ident = draw(st.sampled_from([10_000, 10_000, -1, 0]))   # one archive in two numbers its segments from 0 or 1
    if ident <= 0:
        flags.add("identifier_zero" if ident == -1 else "identifier_one")
    allow_mid = draw(st.integers(0, 5)) == 0   # one archive in six has unknown fields between known ones (a known finding)
    for _ in range(nseg):
        nm = 1 if draw(st.integers(0, 5)) else draw(st.integers(2, 3))
        msgs = []
        for _ in range(nm):
            mtype, body = pool[draw(st.integers(0, len(pool) - 1))]
            roll = draw(st.integers(0, 8))
            if roll in (0, 1, 2):
                body = body + unknown_field(draw(st.integers(0, 3)), draw(st.integers(0, 2**40)), draw(st.binary(max_size=40)))
                flags.add("unknown_fields")
            elif roll == 3 and allow_mid:
                # an unknown field where a writer with a newer schema puts it: in ascending field-number order, between known fields
                mid = unknown_in_order(mtype, body, draw(st.integers(0, 2**20)))
                if mid is not None:
                    body = mid
                    flags.add("unknown_field_between_known")
            msgs.append((mtype, body))
        if nm > 1:
            flags.add("multi_message")
        if draw(st.integers(0, 4)) == 0:
            # a merge segment: the full messages are followed by patches, each a partial message of the class of the message its
            # base_message_index names (shipped files only ever patch message 0 of [full, patch, ...])
            npatch = draw(st.integers(1, 3))
            for _ in range(npatch):
                base = draw(st.integers(0, nm - 1))
                try:
                    raws = [f[3] for f in iwa.wire_fields(msgs[base][1])]
                except Exception:
                    raws = []
                mask = draw(st.integers(0, (1 << min(len(raws), 24)) - 1))
                msgs.append((0, b"".join(r for k, r in enumerate(raws) if k >= 24 or (mask >> k) & 1), base, draw(st.booleans())))
            flags.add("merge_patch")
            if nm > 1:
                flags.add("merge_patch_multi_base")
        ident += draw(st.integers(1, 1000)) if ident >= 10_000 else 1
        segs.append((ident, msgs))
    return {"segs": segs, "target": target, "flags": sorted(flags)}


def assemble(spec, pool):
    parts = [iwa.build_segment(i, m) for i, m in spec["segs"]]
    S = b"".join(parts)
    target = spec["target"]
    if target is not None and target > len(S) + 40:
        # pad with one more segment whose single message carries an unknown blob of the right size
        mtype, body = pool[0]
        pad = target - len(S)
        for _ in range(6):
            blob = bytes(max(0, pad))
            seg = iwa.build_segment(9_999_999, [(mtype, body + unknown_field(1, 0, blob))])
            diff = target - (len(S) + len(seg))
            if diff == 0:
                break
            pad += diff
        S += seg
    return S


def header_size_stream(pool, size, messages=1):
    """A three-segment stream whose middle segment has an ArchiveInfo of exactly `size` bytes (object references pad it), or None
    when no padding hits the size (the length prefix of the packed list changes width at 128 and 16384 entries)."""
    mtype, body = pool[size % len(pool)]
    msgs = [(mtype, body)] * messages
    lo = len(iwa.build_segment(20_000 + size, msgs)) - sum(len(b) for _, b in msgs)
    for k in range(max(0, size - lo - 8), size):
        refs = bytes((7 * j + size) % 127 + 1 for j in range(k))
        extra = b"\x2a" + iwa.write_varint(len(refs)) + refs if k else b""
        seg = iwa.build_segment(20_000 + size, msgs[:1], extra_info_fields=extra)
        if messages > 1:
            # only the first message carries the references
            hdr = bytearray(b"\x08" + iwa.write_varint(20_000 + size))
            for n_, (t_, b_) in enumerate(msgs):
                mi = b"\x08" + iwa.write_varint(t_) + b"\x12\x03\x01\x00\x05" + b"\x18" + iwa.write_varint(len(b_)) + (extra if n_ == 0 else b"")
                hdr += b"\x12" + iwa.write_varint(len(mi)) + mi
            seg = iwa.write_varint(len(hdr)) + bytes(hdr) + b"".join(b for _, b in msgs)
        hlen, p2 = iwa.read_varint(seg, 0)
        if hlen == size:
            a, b = pool[0], pool[1 % len(pool)]
            return iwa.build_segment(19_000, [a]) + seg + iwa.build_segment(21_000_000, [b])
        if hlen > size:
            return None
    return None


HEADER_SIZES = sorted(set(range(20, 300)) | set(range(16370, 16400)) | {511, 512, 1023, 1024, 2047, 2048, 4095, 4096, 8191, 8192, 16500, 20000})


def check_header_size(ctx, IWAFile, pool, size, messages):
    S = header_size_stream(pool, size, messages)
    if S is None:
        ctx.count("header_size_not_constructible")
        return
    case = {"lane": "header_size", "size": size, "messages": messages}
    check_roundtrip(ctx, IWAFile, case, iwa.build_file(S), S, f"header of {size} bytes")
    ctx.count("header_sizes")
    ctx.nt_enum(1)


def tasks(tier, seed):
    t = []
    files = sorted(glob.glob("/repo/tests/data/*.numbers"))
    nsh = 16
    for s in range(nsh):
        t.append(("fixtures", {"files": files[s::nsh], "nrechunk": 1 if tier == "quick" else 4, "every": 3 if tier == "quick" else 1,
                               "seed": derive_seed(seed, "c05f", s)}))
    t.append(("template", {"nrechunk": 4, "seed": derive_seed(seed, "c05t")}))
    for k in range(4 if tier == "quick" else 16):
        t.append(("generated", {"n": 3 if tier == "quick" else 20, "nrechunk": 2, "seed": derive_seed(seed, "c05g", k)}))
    t.append(("header_sizes", {}))
    for k in range(8 if tier == "quick" else 16):
        t.append(("synthetic", {"n": 80 if tier == "quick" else 380, "nrechunk": 4 if tier == "quick" else 8, "seed": derive_seed(seed, "c05s", k)}))
    return t


def run_task(ctx, lane, **kw):
    IWAFile = _lib()
    if lane == "fixtures":
        k = 0
        for path in kw["files"]:
            try:
                ms = pkg.iwa_members(path)
            except Exception:
                ctx.count("unreadable_zip_excluded")
                continue
            for name, data in ms:
                k += 1
                # every archive is round-tripped; re-chunking on multi-chunk ones and on a stride of the rest
                multi = len(data) > 30_000
                nre = kw["nrechunk"] if (multi or k % kw["every"] == 0) else 0
                check_member(ctx, IWAFile, f"{Path(path).name}:{name}", data, nre, derive_seed(kw["seed"], name, k))
                if k % 7 == 0:
                    check_edited(ctx, IWAFile, f"{Path(path).name}:{name}", data, k, bytes(range(k % 200)))
    elif lane == "template":
        from numbers_parser.constants import DEFAULT_DOCUMENT

        for k, (name, data) in enumerate(pkg.iwa_members(str(DEFAULT_DOCUMENT))):
            check_member(ctx, IWAFile, f"template:{name}", data, kw["nrechunk"], derive_seed(kw["seed"], k))
    elif lane == "generated":
        from hypothesis import Phase

        def body(recipe):
            tmp = Path(tempfile.mkdtemp(prefix="vf_c05_"))
            try:
                with warnings.catch_warnings():
                    warnings.simplefilter("ignore")
                    doc = docgen.build(recipe)
                    doc.save(tmp / "g.numbers")
                ctx.count("generated_documents")
                for k, (name, data) in enumerate(pkg.iwa_members(tmp / "g.numbers")):
                    check_member(ctx, IWAFile, f"generated:{name}", data, kw["nrechunk"] if k % 5 == 0 else 0, derive_seed(kw["seed"], k))
            finally:
                shutil.rmtree(tmp, ignore_errors=True)

        run_given(ctx, docgen.recipes(max_ops=20), body, kw["n"], kw["seed"], phases=(Phase.explicit, Phase.generate))
    elif lane == "header_sizes":
        # every ArchiveInfo size from 20 to 299 bytes and around 16384 (the segment's length prefix is a varint: 127/128, 16383/16384)
        pool = message_pool()
        for size in HEADER_SIZES:
            for messages in (1, 2):
                check_header_size(ctx, IWAFile, pool, size, messages)
        ctx.sample({"lane": "header_sizes", "sizes": [HEADER_SIZES[0], HEADER_SIZES[-1]], "count": len(HEADER_SIZES)})
    elif lane == "synthetic":
        pool = message_pool()

        def body(c):
            spec, cs = c
            S = assemble(spec, pool)
            case = {"lane": "synthetic", "segs": [[i, [[t_, b.hex(), *rest] for t_, b, *rest in m]] for i, m in spec["segs"]], "target": spec["target"],
                    "flags": spec["flags"]}
            data = iwa.build_file(S)
            check_roundtrip(ctx, IWAFile, case, data, S, "synthetic")
            rechunk_variants(ctx, IWAFile, case, S, "synthetic", cs)
            ctx.count("synthetic_archives")
            for f in spec["flags"]:
                ctx.count("synthetic_" + f)
            if len(S) > 65536:
                ctx.count("synthetic_multi_chunk")
            if len(S) in (0, 1, 65535, 65536, 65537, 131071, 131072, 131073):
                ctx.count("synthetic_exact_boundary_size")
            if spec["flags"] or len(S) > 65536:
                ctx.nt(jhash([len(S), S[:256].hex(), spec["flags"]]))
            ctx.sample({"lane": "synthetic", "segments": len(spec["segs"]), "stream_bytes": len(S), "flags": spec["flags"]}, every=37)

        strat = synthetic(pool).flatmap(lambda spec: st.tuples(st.just(spec), cutsets(kw["nrechunk"], max(2, len(assemble(spec, pool))))))
        run_given(ctx, strat, body, kw["n"], kw["seed"], reduce=("segs", 25.0, check_case))
    else:
        raise ValueError(lane)


def check_case(ctx, case):
    IWAFile = _lib()
    if case["lane"] == "synthetic":
        pool = message_pool()
        spec = {"segs": [(i, [(t_, bytes.fromhex(b), *rest) for t_, b, *rest in m]) for i, m in case["segs"]], "target": case["target"], "flags": []}
        S = assemble(spec, pool)
        if case.get("variant") == "rechunk":
            data = iwa.build_file(S, case["cuts"], real_snappy if case.get("comp") == "snappy" else None, case.get("stored_mask"))
        else:
            data = iwa.build_file(S)
        check_roundtrip(ctx, IWAFile, case, data, S, "synthetic")
    elif case["lane"] == "header_size":
        check_header_size(ctx, IWAFile, message_pool(), case["size"], case["messages"])
    elif case["lane"] == "edited":
        fname, member = case["label"].split(":", 1)
        data = dict(pkg.iwa_members(f"/repo/tests/data/{fname}"))[member]
        check_edited(ctx, IWAFile, case["label"], data, case["pick"], bytes.fromhex(case["blob"]))
    else:
        fname, member = case["label"].split(":", 1)
        if fname == "template":
            from numbers_parser.constants import DEFAULT_DOCUMENT

            src = str(DEFAULT_DOCUMENT)
        else:
            src = f"/repo/tests/data/{fname}"
        data = dict(pkg.iwa_members(src))[member]
        S, _, _ = iwa.stream_of(data, allow_stored=False)
        if case.get("variant") == "rechunk":
            data = iwa.build_file(S, case["cuts"], real_snappy if case.get("comp") == "snappy" else None, case.get("stored_mask"))
        check_roundtrip(ctx, IWAFile, case, data, S, case["label"])
