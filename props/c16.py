"""C16  Table geometry and labels survive save and reopen unchanged."""
import shutil
import tempfile
import warnings
from pathlib import Path

from hypothesis import strategies as st

from vf import fixtures
from vf.core import derive_seed, run_given

ID = "C16"
RULE = (
    "Fixtures: every supported fixture, saved with a Hypothesis-chosen query vector (which of row_height, col_width, height/width, "
    "coordinates, header counts, names, caption, flags were read before saving - including nothing) and reopened, 2 (quick) / 3 "
    "(thorough) cycles, each cycle starting from a fresh open so that unqueried state is really unqueried. Fixture edits: 1..5 "
    "row_height/col_width calls (5..500) at generated positions of a source document, after a generated query vector (often "
    "nothing), then save+reopen: sizes read back as set on the open document and after reopen, all other geometry as the source "
    "reports it (tables the library warns it does not write are exempt). API-built documents: "
    "any subset of {row_height(r,h), col_width(c,w) with integer points 5..500, header counts, table/sheet names, caption text, "
    "caption/name visibility, coordinates via add_table(x,y)} with and without border strokes (widths 0.25..8) on the sized rows/"
    "columns, drawn before the sizes are set; each built document is also produced a second way - tables created, the handle saved once, and only then names, header counts, borders, sizes, captions and flags set - and saved again. Oracle: G(table) = (row heights, column widths, height, width, coordinates, header "
    "counts, names, caption, flags); G after save+reopen == G of the source (fresh open, everything queried) for every query vector, "
    "and every further cycle leaves G unchanged (no drift); for built documents G_before is taken on the open document with all "
    "getters called, the same history is then replayed with the generated query vector; sizes set through the API must be reported "
    "as set. Non-trivial: a non-default size, or a border on a sized row/column, or an unqueried save; distinct by (document, "
    "settings, query vector)."
)
ASSUMPTIONS = [
    "sizes are integer points in 5..500 (the documented type of row_height/col_width is int) and larger than the whole-point border "
    "allowance of their row/column: a size equal to it leaves the line no content height, is stored as 0, and 0 means 'default' in the file format",
    "border strokes are drawn before sizes are set: a border change after an explicit size resets the reported size in the open "
    "document (observation outside C16, which is about save/reopen)",
]

GETTERS = ["row_height", "col_width", "height_width", "coordinates", "headers", "names", "caption", "flags"]


def geometry(doc, query=None):
    """query: list of booleans aligned with GETTERS (None = everything)."""
    q = [True] * len(GETTERS) if query is None else query
    out = []
    for sheet in doc.sheets:
        for t in sheet.tables:
            g = {}
            if q[0]:
                g["row_heights"] = [t.row_height(r) for r in range(t.num_rows)]
            if q[1]:
                g["col_widths"] = [t.col_width(c) for c in range(t.num_cols)]
            if q[2]:
                g["height"], g["width"] = t.height, t.width
            if q[3]:
                g["coordinates"] = [round(x, 3) for x in t.coordinates]
            if q[4]:
                g["headers"] = [t.num_header_rows, t.num_header_cols]
            if q[5]:
                g["names"] = [sheet.name, t.name]
            if q[6]:
                g["caption"] = t.caption
            if q[7]:
                g["flags"] = [t.caption_enabled, t.table_name_enabled]
            g["dims"] = [t.num_rows, t.num_cols]
            out.append(g)
    return out


def gdiff(a, b):
    out = []
    if len(a) != len(b):
        return [f"table count {len(a)} vs {len(b)}"]
    for i, (x, y) in enumerate(zip(a, b)):
        for k in x:
            if x[k] != y.get(k):
                if isinstance(x[k], list) and isinstance(y.get(k), list) and len(x[k]) == len(y[k]) and k in ("row_heights", "col_widths"):
                    idx = [j for j in range(len(x[k])) if x[k][j] != y[k][j]]
                    out.append(f"table {i} {k}: index {idx[0]}: {x[k][idx[0]]} -> {y[k][idx[0]]} ({len(idx)} differ)")
                else:
                    out.append(f"table {i} {k}: {x[k]!r} -> {y.get(k)!r}")
    return out


def kinds(diffs):
    ks = sorted({d.split(" ")[2].rstrip(":") for d in diffs})
    return ks[:3]


def check_fixture(ctx, case):
    from numbers_parser import Document

    src = fixtures.DATA / case["fixture"]
    tmp = Path(tempfile.mkdtemp(prefix="vf_c16_"))
    try:
        with warnings.catch_warnings():
            warnings.simplefilter("ignore")
            ref = ctx.guard(("C16", "open"), case, Document, src)
            if ref is None:
                return
            g_ref = ctx.guard(("C16", "geometry_raised"), case, geometry, ref)
            if g_ref is None:
                return
            cur = src
            for cycle in range(case["cycles"]):
                def one():
                    d = Document(cur)
                    geometry(d, case["query"])
                    p = tmp / f"c{cycle}.numbers"
                    d.save(p)
                    return p, geometry(Document(p))

                res = ctx.guard(("C16", "cycle_raised", cycle), case, one)
                if res is None:
                    return
                cur, g = res
                ctx.ev()
                d = gdiff(g_ref, g)
                if d:
                    borders = has_borders(ref)
                    ctx.fail(("C16", "fixture", "unqueried" if not any(case["query"][:2]) else "queried", "with_borders" if borders else "no_borders", *kinds(d)),
                             {**case, "has_borders": borders}, f"{case['fixture']} cycle {cycle} query {case['query']}: " + " | ".join(d[:4]))
        ctx.count("fixture_documents")
        nd = sum(1 for g in g_ref for h in g["row_heights"] if h != 20) + sum(1 for g in g_ref for w in g["col_widths"] if w != 98)
        if nd or not all(case["query"]):
            ctx.nt((case["fixture"], case["query"]))
        ctx.count("unqueried_saves" if not any(case["query"][:2]) else "queried_saves")
        ctx.sample({"fixture": case["fixture"], "query": case["query"], "tables": len(g_ref), "non_default_sizes": nd}, every=9)
    finally:
        shutil.rmtree(tmp, ignore_errors=True)


def check_fixture_edit(ctx, case):
    """Sizes set through the API on a *source* document (nothing else touched first, or after the generated query vector),
    then save and reopen: what was set is reported as set, everything else as the source reports it."""
    from numbers_parser import Document

    src = fixtures.DATA / case["fixture"]
    tmp = Path(tempfile.mkdtemp(prefix="vf_c16e_"))
    try:
        with warnings.catch_warnings():
            warnings.simplefilter("ignore")
            ref = ctx.guard(("C16", "open"), case, Document, src)
            if ref is None:
                return
            g_ref = ctx.guard(("C16", "geometry_raised"), case, geometry, ref)
            if g_ref is None:
                return
        expect = [dict(g, row_heights=list(g["row_heights"]), col_widths=list(g["col_widths"])) for g in g_ref]
        applied = []
        for ti, axis, frac, size in case["sets"]:
            g = expect[ti % len(expect)]
            n = g["dims"][0 if axis == "row" else 1]
            idx = min(n - 1, int(frac * n))
            applied.append((ti % len(expect), axis, idx, size))
            g["row_heights" if axis == "row" else "col_widths"][idx] = size

        def one():
            with warnings.catch_warnings(record=True) as w:
                warnings.simplefilter("always")
                d = Document(src)
                geometry(d, case["query"])
                tabs = [t for sh in d.sheets for t in sh.tables]
                for ti, axis, idx, size in applied:
                    (tabs[ti].row_height if axis == "row" else tabs[ti].col_width)(idx, size)
                g_open = geometry(d)
                p = tmp / "e.numbers"
                d.save(p)
                g_re = geometry(Document(p))
            return g_open, g_re, [str(x.message) for x in w]

        res = ctx.guard(("C16", "edit_cycle_raised"), case, one)
        if res is None:
            return
        g_open, g_re, msgs = res
        # tables the library says it does not write are exempt (the warning names them)
        exempt = {i for i, g in enumerate(g_ref) if any("Not modifying pivot table" in m and repr(g["names"][1]) in m.replace('"', "'") for m in msgs)}
        ctx.ev()
        for tag, got in (("open", g_open), ("reopened", g_re)):
            keep = [i for i in range(len(expect)) if i not in exempt or tag == "open"]
            strip = lambda g: {k: v for k, v in g.items() if k not in ("height", "width")}
            d = gdiff([strip(expect[i]) for i in keep], [strip(got[i]) for i in keep])
            if d:
                borders = has_borders(ref)
                ctx.fail(("C16", "fixture_edit", tag, "unqueried" if not any(case["query"][:2]) else "queried", "with_borders" if borders else "no_borders", *kinds(d)),
                         case, f"{case['fixture']} sizes {applied} set after query {case['query']}: {tag}: " + " | ".join(d[:4]))
        ctx.count("fixture_edit_documents")
        ctx.count("fixture_edit_sizes", len(applied))
        ctx.nt((case["fixture"], case["query"], tuple(applied)))
        ctx.sample({"fixture": case["fixture"], "query": case["query"], "sets": applied[:4]}, every=17)
    finally:
        shutil.rmtree(tmp, ignore_errors=True)


size_sets = st.lists(st.tuples(st.integers(0, 5), st.sampled_from(["row", "col"]), st.floats(0, 0.999), st.integers(30, 500) | st.integers(30, 500) | st.sampled_from([98, 97, 99])).map(list), min_size=1, max_size=5)


def has_borders(doc):
    for sheet in doc.sheets:
        for t in sheet.tables:
            for row in t.rows():
                for c in row:
                    b = c.border
                    if b is not None and any(getattr(b, s) is not None and getattr(b, s).width > 0 for s in ("top", "right", "bottom", "left")):
                        return True
    return False


# ------------------------------------------------------------------------------------------
# API-built documents

def build(spec, early_save=None):
    """early_save: a path - the tables are first created under provisional names and header counts, the document is saved once
    from this handle, and only then is everything else (final names, header counts, borders, sizes, captions, flags) set."""
    from numbers_parser import RGB, Border, Document

    prov = (lambda ts: (ts["name"] + " (draft)", 0, 0)) if early_save else (lambda ts: (ts["name"], ts["hr"], ts["hc"]))
    n0, hr0, hc0 = prov(spec["tables"][0])
    doc = Document(sheet_name=spec["sheet_name"], table_name=n0, num_rows=spec["tables"][0]["rows"], num_cols=spec["tables"][0]["cols"],
                   num_header_rows=hr0, num_header_cols=hc0)
    sheet = doc.sheets[0]
    for i, ts in enumerate(spec["tables"]):
        if i > 0:
            n, hr, hc = prov(ts)
            sheet.add_table(n, ts.get("x"), ts.get("y"), ts["rows"], ts["cols"], hr, hc)
    if early_save:
        doc.save(early_save)
        for i, ts in enumerate(spec["tables"]):
            t = sheet.tables[i]
            t.name = ts["name"]
            t.num_header_rows = ts["hr"]
            t.num_header_cols = ts["hc"]
    for i, ts in enumerate(spec["tables"]):
        t = sheet.tables[i]
        for (r, c, side, width, length) in ts["borders"]:
            t.set_cell_border(r, c, side, Border(float(width), RGB(10, 20, 30), "solid"), length)
        for r, h in ts["row_heights"]:
            t.row_height(r, h)
        for c, w in ts["col_widths"]:
            t.col_width(c, w)
        if ts.get("caption") is not None:
            t.caption = ts["caption"]
        if ts.get("caption_enabled") is not None:
            t.caption_enabled = ts["caption_enabled"]
        if ts.get("name_enabled") is not None:
            t.table_name_enabled = ts["name_enabled"]
        for r, c, v in ts["writes"]:
            t.write(r, c, v)
    return doc


def check_built(ctx, case):
    from numbers_parser import Document

    spec = case["spec"]
    tmp = Path(tempfile.mkdtemp(prefix="vf_c16b_"))
    try:
        with warnings.catch_warnings():
            warnings.simplefilter("ignore")

            def run(query, tag):
                doc = build(spec, early_save=(tmp / f"{tag}_early.numbers") if tag == "c" else None)
                g_open = geometry(doc, query)
                p = tmp / f"{tag}0.numbers"
                doc.save(p)
                gs = [geometry(Document(p))]
                cur = p
                for cycle in range(1, case["cycles"]):
                    d = Document(cur)
                    geometry(d, query)
                    cur = tmp / f"{tag}{cycle}.numbers"
                    d.save(cur)
                    gs.append(geometry(Document(cur)))
                return g_open, gs

            res = ctx.guard(("C16", "built_raised"), case, run, None, "a")
            if res is None:
                return
            g_before, gs_a = res
            res = ctx.guard(("C16", "built_raised"), case, run, case["query"], "b")
            if res is None:
                return
            _, gs_b = res
            res = ctx.guard(("C16", "built_raised", "saved_before_settings"), case, run, None, "c")
            if res is None:
                return
            g_open_c, gs_c = res
        d = gdiff(g_before, g_open_c)
        if d:
            ctx.fail(("C16", "built", "saved_before_settings", "open"), case, "the same settings applied after an early save of the handle are reported differently: " + " | ".join(d[:4]))
        bord = any(ts["borders"] for ts in spec["tables"])
        tagb = "with_borders" if bord else "no_borders"
        # sizes set through the API are reported as set (open document)
        for i, ts in enumerate(spec["tables"]):
            ctx.ev()
            for r, h in dict(map(tuple, ts["row_heights"])).items():
                if g_before[i]["row_heights"][r] != h:
                    ctx.fail(("C16", "built", "set_size_not_reported", tagb), case, f"row_height({r},{h}) then row_height({r}) -> {g_before[i]['row_heights'][r]}")
            for c, w in dict(map(tuple, ts["col_widths"])).items():
                if g_before[i]["col_widths"][c] != w:
                    ctx.fail(("C16", "built", "set_size_not_reported", tagb), case, f"col_width({c},{w}) then col_width({c}) -> {g_before[i]['col_widths'][c]}")
            # everything else that was set through the API is reported as set
            gb = g_before[i]
            wants = {"headers": [ts["hr"], ts["hc"]], "names": [spec["sheet_name"], ts["name"]]}
            if ts.get("caption") is not None:
                wants["caption"] = ts["caption"]
                if ts.get("caption_enabled") is not None:
                    wants["flags0"] = ts["caption_enabled"]
            if ts.get("name_enabled") is not None:
                wants["flags1"] = ts["name_enabled"]
            if "x" in ts:
                wants["coordinates"] = [ts["x"], ts["y"]]
            for k, w in wants.items():
                got = gb["flags"][int(k[-1])] if k.startswith("flags") else gb[k]
                if got != w:
                    ctx.fail(("C16", "built", "set_value_not_reported", k), case, f"table {i}: {k} set to {w!r}, reported {got!r}")
        for tag, gs, q in (("all_queried", gs_a, None), ("generated_query", gs_b, case["query"]), ("saved_before_settings", gs_c, None)):
            for cycle, g in enumerate(gs):
                ctx.ev()
                d = gdiff(g_before, g)
                if d:
                    unq = q is not None and not any(q[:2])
                    ctx.fail(("C16", "built", "saved_before_settings" if tag == "saved_before_settings" else "unqueried" if unq else "queried", tagb, "first_cycle" if cycle == 0 else "drift", *kinds(d)), case,
                             f"built document, {tag} {q}, cycle {cycle}: " + " | ".join(d[:4]))
        ctx.count("built_documents")
        ctx.count("built_" + tagb)
        ctx.nt((spec, case["query"]))
        ctx.sample({"tables": len(spec["tables"]), "query": case["query"], "row_heights": spec["tables"][0]["row_heights"][:3], "borders": spec["tables"][0]["borders"][:2]}, every=11)
    finally:
        shutil.rmtree(tmp, ignore_errors=True)


@st.composite
def specs(draw):
    tables = []
    for i in range(draw(st.integers(1, 2))):
        rows, cols = draw(st.integers(2, 8)), draw(st.integers(2, 6))
        hr, hc = draw(st.integers(0, min(2, rows - 1))), draw(st.integers(0, min(2, cols - 1)))
        with_borders = draw(st.booleans())
        borders = []
        if with_borders:
            for _ in range(draw(st.integers(1, 4))):
                side = draw(st.sampled_from(["top", "right", "bottom", "left"]))
                r, c = draw(st.integers(0, rows - 1)), draw(st.integers(0, cols - 1))
                length = draw(st.integers(1, (cols - c) if side in ("top", "bottom") else (rows - r)))
                borders.append([r, c, side, draw(st.sampled_from([0.25, 0.5, 1.0, 2.0, 3.0, 8.0])), length])
        lo = 10 if with_borders else 5   # a size must exceed the whole-point border allowance of its line (at most 8 here)
        # one size in three is the default of a new table or next to it (20 / 98): set explicitly, it must survive like any other
        rh = [[r, draw(st.integers(lo, 500) | st.integers(lo, 500) | st.sampled_from([20, 20, 19, 21]))] for r in sorted(draw(st.sets(st.integers(0, rows - 1), max_size=4)))]
        cw = [[c, draw(st.integers(lo, 500) | st.integers(lo, 500) | st.sampled_from([98, 98, 97, 99]))] for c in sorted(draw(st.sets(st.integers(0, cols - 1), max_size=3)))]
        ts = {"name": f"T{i}" if draw(st.booleans()) else draw(st.sampled_from(["Table A", "Übersicht", "x y", "Q3 \"plan\""])) + str(i),
              "rows": rows, "cols": cols, "hr": hr, "hc": hc, "borders": borders, "row_heights": rh, "col_widths": cw,
              "caption": draw(st.none() | st.text(max_size=15)), "caption_enabled": draw(st.none() | st.booleans()),
              "name_enabled": draw(st.none() | st.booleans()), "writes": [[0, 0, "x"]] if draw(st.booleans()) else []}
        if i > 0 and draw(st.booleans()):
            ts["x"], ts["y"] = float(draw(st.integers(0, 800))), float(draw(st.integers(0, 2000)))
        tables.append(ts)
    return {"sheet_name": draw(st.sampled_from(["Sheet 1", "Data", "Blatt ä"])), "tables": tables}


queries = st.lists(st.booleans(), min_size=len(GETTERS), max_size=len(GETTERS)) | st.just([False] * len(GETTERS))


def tasks(tier, seed):
    t = []
    big = {"custom-format-stress.numbers", "test-6.numbers", "issue-67.numbers", "duration_112.numbers", "issue-35.numbers"}
    for name in sorted(fixtures.SUPPORTED, key=lambda n: n not in big):
        t.append(("fixture", {"fixture": name, "n": 0 if (tier == "quick" and name in big) else (1 if tier == "quick" else 3), "cycles": 2 if tier == "quick" else 3,
                              "seed": derive_seed(seed, "c16", name)}))
    for name in sorted(fixtures.SUPPORTED, key=lambda n: n not in big):
        if tier == "quick" and name in big:
            continue
        t.append(("fixture_edit", {"fixture": name, "n": 2 if tier == "quick" else 12, "seed": derive_seed(seed, "c16e", name)}))
    for k in range(16):
        t.append(("built", {"n": 5 if tier == "quick" else 95, "cycles": 2 if tier == "quick" else 3, "seed": derive_seed(seed, "c16b", k)}))
    return t


def run_task(ctx, lane, **kw):
    from hypothesis import Phase

    if lane == "fixture":
        # nothing queried (the case the tests never exercise), everything queried, and generated vectors
        check_fixture(ctx, {"lane": "fixture", "fixture": kw["fixture"], "query": [False] * len(GETTERS), "cycles": kw["cycles"]})
        if kw["n"]:
            check_fixture(ctx, {"lane": "fixture", "fixture": kw["fixture"], "query": [True] * len(GETTERS), "cycles": kw["cycles"]})

            def body(q):
                check_fixture(ctx, {"lane": "fixture", "fixture": kw["fixture"], "query": q, "cycles": kw["cycles"]})

            run_given(ctx, queries, body, kw["n"], kw["seed"], phases=(Phase.explicit, Phase.generate))
    elif lane == "fixture_edit":
        def body(c):
            sets, q = c
            check_fixture_edit(ctx, {"lane": "fixture_edit", "fixture": kw["fixture"], "sets": sets, "query": q})

        run_given(ctx, st.tuples(size_sets, queries), body, kw["n"], kw["seed"], phases=(Phase.explicit, Phase.generate))
    elif lane == "built":
        def body(c):
            spec, q = c
            check_built(ctx, {"lane": "built", "spec": spec, "query": q, "cycles": kw["cycles"]})

        run_given(ctx, st.tuples(specs(), queries), body, kw["n"], kw["seed"], phases=(Phase.explicit, Phase.generate))
    else:
        raise ValueError(lane)


def check_case(ctx, case):
    case = {k: v for k, v in case.items() if k != "has_borders"}
    if case["lane"] == "fixture":
        check_fixture(ctx, case)
    elif case["lane"] == "fixture_edit":
        check_fixture_edit(ctx, case)
    else:
        check_built(ctx, case)
