"""C04  Cell storage records decode to exactly what was encoded, field by field."""
from datetime import datetime, timedelta
from decimal import Decimal

from vf import cellcodec as cc
from vf.core import derive_seed, run_given
from vf.stubs import StubModel

ID = "C04"
RULE = (
    "(a) library encoder -> library decoder AND independent decoder: 8 encodable kinds (number, currency, text, date, bool, "
    "duration, empty, rich text) x all 2^12 subsets of {rich, cell-style, text-style, formula, control, suggest, "
    "number/currency/date/duration/text/bool format} with pairwise distinct sentinel ids and a payload per kind - exhaustive. "
    "(b) independent encoder (vf/cellcodec.py, written from the published layout: fields in ascending flag-bit order) -> "
    "library decoder: 9 decodable kinds x flag words over the 21 documented bits - all words with <=4 optional bits plus "
    "Hypothesis-drawn words (quick), all 2^18 words of the 18 id bits x sampled payload bits (thorough), sentinel ids in every "
    "slot incl. the uninterpreted ones (0x80, 0x100, 0x800, 0x80000, 0x100000); the id 0 in each optional reference field in turn (both lanes). Oracle: same kind, same payload, every "
    "interpreted attribute equals its own sentinel, absent ones None. Non-trivial: >=2 optional fields present; distinct by "
    "(kind, flag word)."
)
ASSUMPTIONS = [
    "layout reference: SheetJS IWA notes (docs/Numbers.md defers to them): ids follow in ascending flag-bit order",
    "a stub model provides string / rich-text lookups; kinds whose payload flag is mandatory in real files always carry it",
]
EXHAUSTIVE = {"quick": False, "thorough": True}
EXHAUSTIVE_NOTE = "(a) 8 kinds x 4096 subsets complete in both tiers; (b) all 2^18 id-flag words per kind in thorough"

ATTRS = ["_rich_id", "_cell_style_id", "_text_style_id", "_formula_id", "_control_id", "_suggest_id", "_num_format_id",
         "_currency_format_id", "_date_format_id", "_duration_format_id", "_text_format_id", "_bool_format_id"]
# library attribute <-> layout field name
ATTR_FIELD = {a: a[1:] for a in ATTRS}
ATTR_FIELD["_string_id"] = "string_id"
SENT_IDS = {a: 1000 + 37 * i for i, a in enumerate(ATTRS)}

KINDS = ["number", "currency", "text", "date", "bool", "duration", "empty", "rich"]
PAYLOADS = {
    "number": [12, 0.12, -52.5, 123456789012345, 1e-7, 0],
    "currency": [50, 1943.32, -0.01],
    "text": ["", "hello", "a\nb", "😀"],
    "date": [datetime(2001, 1, 1), datetime(1999, 12, 31, 23, 59, 59), datetime(2024, 2, 29, 12, 0, 0, 250000)],
    "bool": [True, False],
    "duration": [timedelta(0), timedelta(days=3, seconds=7, microseconds=500000), timedelta(seconds=-90)],
    "empty": [None],
    "rich": ["<rich>"],
}


def _lib():
    from numbers_parser import cell as cellmod
    from numbers_parser.constants import CellType
    from numbers_parser.generated import TSTArchives_pb2 as TST

    return cellmod, CellType, TST


def make_cell(cellmod, CellType, kind, payload, stub):
    if kind == "number":
        c = cellmod.NumberCell(0, 0, payload)
    elif kind == "currency":
        c = cellmod.NumberCell(0, 0, payload, cell_type=CellType.CURRENCY)
    elif kind == "text":
        c = cellmod.TextCell(0, 0, payload)
    elif kind == "date":
        c = cellmod.DateCell(0, 0, payload)
    elif kind == "bool":
        c = cellmod.BoolCell(0, 0, payload)
    elif kind == "duration":
        c = cellmod.DurationCell(0, 0, payload)
    elif kind == "empty":
        c = cellmod.EmptyCell(0, 0)
    else:
        c = cellmod.RichTextCell(0, 0, {"text": payload, "bullets": [], "hyperlinks": [], "bulleted": False, "bullet_chars": []})
    c._model = stub
    c._table_id = 1
    return c


CLASS_OF = {"number": "NumberCell", "currency": "NumberCell", "text": "TextCell", "date": "DateCell", "bool": "BoolCell", "duration": "DurationCell",
            "empty": "EmptyCell", "rich": "RichTextCell", "error": "ErrorCell"}


def check_encode(ctx, lib, stub, kind, subset, payload_i, zero=None):
    """zero: name of one optional reference attribute that carries the id 0 instead of its sentinel (0 is a value like any other in a
    present 4-byte field: presence is the flag bit, not the value)."""
    cellmod, CellType, TST = lib
    case = {"lane": "encode", "kind": kind, "subset": subset, "payload": payload_i}
    if zero is not None:
        case["zero"] = zero
    SENT = dict(SENT_IDS, **({zero: 0} if zero is not None else {}))
    payload = PAYLOADS[kind][payload_i % len(PAYLOADS[kind])]
    ctx.ev()

    def go():
        cell = make_cell(cellmod, CellType, kind, payload, stub)
        present = [a for i, a in enumerate(ATTRS) if subset >> i & 1]
        if kind == "rich" and "_rich_id" not in present:
            present.append("_rich_id")  # a rich-text record always carries its rich-text id
        for a in ATTRS:
            setattr(cell, a, SENT[a] if a in present else None)
        buf = bytes(cell._to_buffer())
        # 1. independent decoder on the produced bytes
        ctype, extras, flags, fields, used = cc.decode(buf)
        if used != len(buf):
            ctx.fail(("C04", "encoder_length"), case, f"{kind}: record is {len(buf)} bytes, its flags {flags:#x} describe {used}")
        for a in ATTRS:
            want = SENT[a] if a in present else None
            got = fields.get(ATTR_FIELD[a])
            if got != want:
                ctx.fail(("C04", "encoder_field", a), case, f"{kind}: layout says {ATTR_FIELD[a]}={got!r} in the encoded record, cell had {want!r} (flags {flags:#x})")
        # 2. library decoder
        back = cellmod.Cell._from_storage(1, 0, 0, bytearray(buf), stub)
        if type(back).__name__ != CLASS_OF[kind]:
            ctx.fail(("C04", "kind"), case, f"{kind} decoded as {type(back).__name__}")
        if kind == "currency" and back._type != CellType.CURRENCY:
            ctx.fail(("C04", "kind_currency"), case, "currency cell decoded as a plain number cell")
        if kind in ("number", "currency", "date", "bool", "duration", "text"):
            if not (back.value == payload) or (isinstance(payload, bool) != isinstance(back.value, bool)):
                ctx.fail(("C04", "payload", kind), case, f"{kind}: payload {payload!r} decoded as {back.value!r}")
        for a in ATTRS:
            want = SENT[a] if a in present else None
            got = getattr(back, a)
            if got != want:
                ctx.fail(("C04", "roundtrip_field", a), case, f"{kind}: {a} encoded as {want!r}, decoded as {got!r} (flags {flags:#x})")
        if kind == "text" and back._string_id is None:
            ctx.fail(("C04", "roundtrip_field", "_string_id"), case, "text cell decoded without a string id")
        return len(present)

    n = ctx.guard(("C04", "encode"), case, go)
    return n or 0


# kinds for the independent encoder: (name, cell type number attr, mandatory payload flags)
def decode_kinds(TST):
    return [
        ("empty", TST.genericCellType, []), ("number", TST.numberCellType, ["d128"]), ("text", TST.textCellType, ["string_id"]),
        ("date", TST.dateCellType, ["seconds"]), ("bool", TST.boolCellType, ["double"]), ("duration", TST.durationCellType, ["double"]),
        ("error", TST.formulaErrorCellType, []), ("rich", TST.automaticCellType, ["rich_id"]), ("currency", 10, ["d128"]),
    ]


FIELD_SENT = {name: 5000 + 101 * i for i, (_, name) in enumerate(cc.ID_FIELDS)}
INTERPRETED = {"string_id": "_string_id", "rich_id": "_rich_id", "cell_style_id": "_cell_style_id", "text_style_id": "_text_style_id",
               "formula_id": "_formula_id", "control_id": "_control_id", "suggest_id": "_suggest_id", "num_format_id": "_num_format_id",
               "currency_format_id": "_currency_format_id", "date_format_id": "_date_format_id", "duration_format_id": "_duration_format_id",
               "text_format_id": "_text_format_id", "bool_format_id": "_bool_format_id"}


def check_decode(ctx, lib, stub, kind_i, word, zero=None):
    """word: bit mask over cc.FIELDS (the 21 documented bits); zero: name of one id field that carries the id 0."""
    cellmod, CellType, TST = lib
    name, ctype, mandatory = decode_kinds(TST)[kind_i]
    case = {"lane": "decode", "kind": name, "kind_i": kind_i, "word": word}
    if zero is not None:
        case["zero"] = zero
    ctx.ev()

    def go():
        fields = {}
        w = word
        for m in mandatory:
            w |= next(b for b, n, _ in cc.FIELDS if n == m)
        for bit, fname, size in cc.FIELDS:
            if w & bit:
                if fname == "d128":
                    fields[fname] = Decimal("1234.5")
                elif fname == "double":
                    fields[fname] = 1.0 if name == "bool" else 86461.5
                elif fname == "seconds":
                    fields[fname] = 86400.0 * 366 + 0.25
                else:
                    fields[fname] = 0 if fname == zero else FIELD_SENT[fname]
        buf = cc.encode(ctype, fields)
        back = cellmod.Cell._from_storage(1, 0, 0, bytearray(buf), stub)
        if type(back).__name__ != CLASS_OF[name]:
            ctx.fail(("C04", "decode_kind"), case, f"type {ctype} decoded as {type(back).__name__}")
        for fname, attr in INTERPRETED.items():
            want = fields.get(fname)
            got = getattr(back, attr)
            if got != want:
                shifted = [k for k, v in fields.items() if v == got and k != fname]
                ctx.fail(("C04", "decode_field", attr), case,
                         f"{name} flags {w:#x}: {attr} decoded as {got!r}, record carries {want!r}" + (f" (that is the {shifted[0]} slot)" if shifted else ""))
        if "d128" in fields and name in ("number", "currency") and back.value != 1234.5:
            ctx.fail(("C04", "decode_payload"), case, f"{name}: number payload decoded as {back.value!r}")
        if name == "date" and back.value != datetime(2002, 1, 2, 0, 0, 0, 250000):
            ctx.fail(("C04", "decode_payload"), case, f"date payload decoded as {back.value!r}")
        if name == "duration" and back.value != timedelta(seconds=86461.5):
            ctx.fail(("C04", "decode_payload"), case, f"duration payload decoded as {back.value!r}")
        if name == "bool" and back.value is not True:
            ctx.fail(("C04", "decode_payload"), case, f"bool payload decoded as {back.value!r}")
        return bin(w).count("1")

    return ctx.guard(("C04", "decode"), case, go) or 0


ID_BITS = [b for b, _ in cc.ID_FIELDS]  # 18 id bits


def word_from_idmask(mask):
    w = 0
    for i, b in enumerate(ID_BITS):
        if mask >> i & 1:
            w |= b
    return w


def tasks(tier, seed):
    t = []
    for kind in KINDS:
        for half in range(2):
            t.append(("encode_all", {"kind": kind, "lo": half * 2048, "hi": (half + 1) * 2048}))
    t.append(("zero_ids", {}))
    if tier == "quick":
        for kind_i in range(9):
            t.append(("decode_small", {"maxbits": 4, "kind_i": kind_i}))
        for k in range(4):
            t.append(("decode_random", {"n": 15000, "seed": derive_seed(seed, "c04", k)}))
    else:
        nsh = 32
        step = (1 << 18) // nsh
        for s in range(nsh):
            t.append(("decode_all", {"lo": s * step, "hi": (s + 1) * step}))
        for k in range(8):
            t.append(("decode_random", {"n": 60000, "seed": derive_seed(seed, "c04", k)}))
    return t


def run_task(ctx, lane, **kw):
    lib = _lib()
    stub = StubModel()
    if lane == "encode_all":
        kind = kw["kind"]
        for subset in range(kw["lo"], kw["hi"]):
            n = check_encode(ctx, lib, stub, kind, subset, subset)
            if n >= 2:
                ctx.nt_enum(1)
        ctx.sample({"lane": "encode", "kind": kind, "subsets": [kw["lo"], kw["hi"]]})
    elif lane == "zero_ids":
        # the id 0 in each optional reference field in turn: alone, with one neighbour on either side, and with every field present
        opt = [a for a in ATTRS if a != "_rich_id"]
        for kind in KINDS:
            for a in opt:
                i = ATTRS.index(a)
                for subset in {1 << i, (1 << i) | (1 << max(i - 1, 1)) | (1 << min(i + 1, len(ATTRS) - 1)), (1 << len(ATTRS)) - 1}:
                    check_encode(ctx, lib, stub, kind, subset, i, zero=a)
                    ctx.nt_enum(1)
        for kind_i in range(len(decode_kinds(lib[2]))):
            for bit, fname in cc.ID_FIELDS:
                if fname in ("string_id", "rich_id"):
                    continue
                for w in (bit, cc.ALL_BITS):
                    check_decode(ctx, lib, stub, kind_i, w, zero=fname)
                    ctx.nt_enum(1)
        ctx.count("zero_id_records")
        ctx.sample({"lane": "zero_ids", "fields": opt})
    elif lane == "decode_small":
        import itertools

        nk = len(decode_kinds(lib[2]))
        for nbits in range(0, kw["maxbits"] + 1):
            for combo in itertools.combinations(range(18), nbits):
                mask = sum(1 << i for i in combo)
                kind_i = kw["kind_i"]
                assert kind_i < nk
                n = check_decode(ctx, lib, stub, kind_i, word_from_idmask(mask) | (kind_i % 2) * 0x2)
                if n >= 2:
                    ctx.nt_enum(1)
        ctx.sample({"lane": "decode_small", "maxbits": kw["maxbits"], "example_word": hex(word_from_idmask(0b1011))})
    elif lane == "decode_all":
        nk = len(decode_kinds(lib[2]))
        for mask in range(kw["lo"], kw["hi"]):
            w = word_from_idmask(mask)
            for kind_i in ((mask % nk), ((mask // nk) % nk)):
                n = check_decode(ctx, lib, stub, kind_i, w | ((mask >> 3) & 0x7))
                if n >= 2:
                    ctx.nt_enum(1)
        ctx.sample({"lane": "decode_all", "id_masks": [kw["lo"], kw["hi"]]})
    elif lane == "decode_random":
        from hypothesis import strategies as st

        nk = len(decode_kinds(lib[2]))
        strat = st.tuples(st.integers(0, nk - 1), st.integers(0, cc.ALL_BITS))

        def body(c):
            kind_i, raw = c
            word = raw & cc.ALL_BITS
            n = check_decode(ctx, lib, stub, kind_i, word)
            if n >= 2:
                ctx.nt(("decode", kind_i, word))
            ctx.sample({"lane": "decode_random", "kind_i": kind_i, "word": hex(word)}, every=4999)

        run_given(ctx, strat, body, kw["n"], kw["seed"])
    else:
        raise ValueError(lane)


def check_case(ctx, case):
    lib = _lib()
    stub = StubModel()
    if case["lane"] == "encode":
        check_encode(ctx, lib, stub, case["kind"], case["subset"], case["payload"], zero=case.get("zero"))
    else:
        check_decode(ctx, lib, stub, case["kind_i"], case["word"], zero=case.get("zero"))
