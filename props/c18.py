"""C18  Formula tokenizer is lossless, total, and accepts every formula the reader emits."""
import itertools

from vf import fixtures
from vf.core import derive_seed, run_given

ID = "C18"
ALPHABET = list("AEx09 ") + list("+-*/^&=><%") + list("×÷≥≤≠") + list(",;") + list("(){}") + ['"', "'"] + list("#$!:.") + ["1", "T"]
assert len(set(ALPHABET)) == len(ALPHABET)
RULE = (
    f"(i) every string of length <=3 (quick) / <=4 (thorough) over a {len(ALPHABET)}-symbol alphabet (letters, digits, "
    "space, ASCII and typographic operators, separators, brackets, both quotes, # $ ! : .); (ii) Hypothesis strings "
    "up to length 60 over that alphabet plus one-character mutations of real formulas; (iii) every formula text the "
    "reader emits for every formula cell of the supported fixtures (and for references rendered over generated header "
    "labels and table names). Oracle: only TokenizerError may escape; on success the "
    "token values concatenate to the input and no quoted span (doubled-quote rule) straddles two tokens; reader output "
    "must tokenize. Non-trivial: contains a quote, bracket or two-character operator; distinct by string."
)
ASSUMPTIONS = [
    "a quoted span is delimited by the doubled-quote rule; unterminated quotes are not spans",
    "formulas the reader emits are collected through Cell.formula on documents that open without warnings",
]
EXHAUSTIVE = {"quick": False, "thorough": False}
EXHAUSTIVE_NOTE = "all strings of length <=3 (quick) / <=4 (thorough) over the alphabet are enumerated completely"

try:
    from props import c18_labels  # noqa: F401  (lane (iii-b): references over generated header labels)

    HAVE_LABELS = True
except ImportError:
    HAVE_LABELS = False

NT_CHARS = set("\"'(){}") | set("≥≤≠")


def _lib():
    from numbers_parser.tokenizer import Tokenizer, TokenizerError

    return Tokenizer, TokenizerError


def nontrivial(s):
    return any(c in NT_CHARS for c in s) or any(op in s for op in (">=", "<=", "<>"))


def quoted_spans(s):
    """Complete quoted spans [i, j] (inclusive) by the doubled-quote rule, scanning left to right."""
    spans = []
    i, n = 0, len(s)
    while i < n:
        q = s[i]
        if q in "\"'":
            j = i + 1
            close = None
            while j < n:
                if s[j] == q:
                    if j + 1 < n and s[j + 1] == q:
                        j += 2
                        continue
                    close = j
                    break
                j += 1
            if close is None:
                return spans, i  # unterminated at i
            spans.append((i, close))
            i = close + 1
        else:
            i += 1
    return spans, None


def check_string(ctx, Tokenizer, TokenizerError, s, must_accept=False, origin=None):
    case = {"lane": "string", "s": s, "must_accept": must_accept}
    if origin:
        case["origin"] = origin
    ctx.ev()
    try:
        tok = Tokenizer(s)
    except TokenizerError as e:
        if must_accept:
            ctx.fail(("C18", "reader_output_rejected"), case, f"the reader emitted {s!r} but the tokenizer rejects it: {e}")
        ctx.count("rejected")
        return None
    except Exception as e:
        from vf.core import innermost_lib_frame

        ctx.fail(("C18", "foreign_exception", type(e).__name__, innermost_lib_frame(e)), case,
                 f"Tokenizer({s!r}) raised {type(e).__name__}: {e}")
        return None
    ctx.count("accepted")
    values = [t.value for t in tok.items]
    joined = "".join(values)
    if joined != s:
        ctx.fail(("C18", "lossy"), case, f"tokens {values!r} concatenate to {joined!r}, input was {s!r}")
        return tok
    spans, _unterminated = quoted_spans(s)
    if spans:
        # token boundaries (exclusive end offsets)
        bounds = []
        pos = 0
        for v in values:
            bounds.append((pos, pos + len(v)))
            pos += len(v)
        for (a, b) in spans:
            inside = any(lo <= a and b < hi for lo, hi in bounds)
            if not inside:
                ctx.fail(("C18", "quoted_span_split"), case, f"quoted span {s[a:b+1]!r} is split across tokens {values!r}")
                break
    return tok


def tasks(tier, seed):
    t = []
    maxlen = 3 if tier == "quick" else 4
    n = len(ALPHABET)
    # shard by first symbol (two symbols in thorough)
    for first in range(n):
        t.append(("short", {"first": first, "maxlen": maxlen}))
    nrand = 16
    per = 4000 if tier == "quick" else 200_000
    for k in range(nrand):
        t.append(("random", {"n": per, "seed": derive_seed(seed, "c18rand", k)}))
    names = fixtures.SUPPORTED if tier == "thorough" else [
        "create-formulas.numbers", "formula-decode-debug.numbers", "test-all-formulas.numbers", "test-extra-formulas.numbers",
        "test-new-formulas.numbers", "issue-37.numbers", "test-10.numbers", "test-3.numbers", "test-8.numbers",
        "issue-54.numbers", "issue-66-collab.numbers", "test-custom-formats.numbers", "test-empty-rows.numbers",
        "date_formats.numbers", "test-pivot.numbers", "test-styles.numbers", "issue-14.numbers",
    ]
    for name in names:
        t.append(("fixture", {"name": name, "mutate_seed": derive_seed(seed, "c18mut", name), "nmut": 300 if tier == "quick" else 3000}))
    if HAVE_LABELS:
        for k in range(2 if tier == "quick" else 16):
            t.append(("labels", {"seed": derive_seed(seed, "c18lab", k), "n": 6 if tier == "quick" else 20}))
    return t


def fixture_formulas(name):
    from numbers_parser import Document

    doc = Document(fixtures.DATA / name)
    out = {}
    for sheet in doc.sheets:
        for table in sheet.tables:
            for row in table.rows():
                for cell in row:
                    if cell.is_formula:
                        try:
                            f = cell.formula
                        except Exception:
                            continue  # a reader failure is C08's business, not the tokenizer's
                        if isinstance(f, str):
                            out.setdefault(f, (sheet.name, table.name, cell.row, cell.col))
    return out


def run_task(ctx, lane, **kw):
    Tokenizer, TokenizerError = _lib()
    if lane == "short":
        first = ALPHABET[kw["first"]]
        total = 0
        for length in range(1, kw["maxlen"] + 1):
            for rest in itertools.product(ALPHABET, repeat=length - 1):
                s = first + "".join(rest)
                check_string(ctx, Tokenizer, TokenizerError, s)
                total += 1
                if nontrivial(s):
                    ctx.nt_enum(1)
                ctx.sample({"lane": "short", "s": s}, every=50021)
        if kw["first"] == 0:
            check_string(ctx, Tokenizer, TokenizerError, "")
    elif lane == "random":
        from hypothesis import strategies as st

        atoms = st.sampled_from(ALPHABET) | st.sampled_from(
            ['"a""b"', "'x y'", "'a''b'", "SUM(", "A1:B2", "1.5E+3", "1E-2", ">=", "<=", "<>", "Sheet 1::Table 1::A1", "#REF!", "#DIV/0!", "TRUE", "$A$1", "{1,2;3,4}"]
        )
        strat = st.lists(atoms, min_size=1, max_size=24).map("".join)

        def body(s):
            check_string(ctx, Tokenizer, TokenizerError, s)
            if nontrivial(s):
                ctx.nt(s)
            ctx.sample({"lane": "random", "s": s}, every=997)

        run_given(ctx, strat, body, kw["n"], kw["seed"])
    elif lane == "fixture":
        forms = fixture_formulas(kw["name"])
        ctx.count("fixture_formulas", len(forms))
        for f, where in forms.items():
            check_string(ctx, Tokenizer, TokenizerError, f, must_accept=True, origin=[kw["name"], *where])
            if nontrivial(f):
                ctx.nt(f)
            ctx.sample({"lane": "fixture", "fixture": kw["name"], "formula": f}, every=211)
        # one-character mutations of real formulas (delete / duplicate / swap / replace)
        flist = sorted(f for f in forms if f)
        if flist:
            from hypothesis import strategies as st

            strat = st.tuples(st.sampled_from(flist), st.integers(0, 10_000), st.sampled_from(["del", "dup", "swap", "rep"]), st.sampled_from(ALPHABET))

            def body(c):
                f, pos, op, ch = c
                pos %= len(f)
                if op == "del":
                    s = f[:pos] + f[pos + 1:]
                elif op == "dup":
                    s = f[:pos] + f[pos] + f[pos:]
                elif op == "swap":
                    s = f[:pos] + f[pos + 1:pos + 2] + f[pos] + f[pos + 2:]
                else:
                    s = f[:pos] + ch + f[pos + 1:]
                check_string(ctx, Tokenizer, TokenizerError, s)
                if nontrivial(s):
                    ctx.nt(s)
                ctx.sample({"lane": "mutation", "s": s}, every=499)

            run_given(ctx, strat, body, kw["nmut"], kw["mutate_seed"])
    elif lane == "labels":
        from props import c18_labels

        c18_labels.run(ctx, Tokenizer, TokenizerError, check_string, nontrivial, kw["n"], kw["seed"])
    else:
        raise ValueError(lane)


def check_case(ctx, case):
    Tokenizer, TokenizerError = _lib()
    check_string(ctx, Tokenizer, TokenizerError, case["s"], must_accept=case.get("must_accept", False))
