"""C11  A1 and row/column addressing reach the same cell in every call; bounds hold."""
import itertools
import warnings

from hypothesis import strategies as st
from hypothesis.stateful import RuleBasedStateMachine, rule

from vf import a1, gens
from vf.core import derive_seed, run_machine
from vf.hist import Exec, _Abort

ID = "C11"
MAX_ROW, MAX_COL = 1_000_000, 1000
RULE = (
    "State machine on one table of generated size (1..40 x 1..30, occasionally 255..258 rows): positions with row in "
    "[-3, 1000001] and column in [-3, 1001], boundary-heavy (negative, 0, last, last+1..3, far <=1200/999, limit-1, "
    "limit, limit+1), each in row/column form and as A1 text ('$' variants, 'A0', lower case) for cell, write, "
    "set_cell_style, set_cell_formatting, set_cell_border. Enumerated lane: iter_rows/iter_cols with every combination "
    "of min/max in {None,0,1,last-1,last,last+1,-1} on several table shapes, values_only on/off. Oracle: grid model; both "
    "notations hit the same cell (identity for cell(); same model transition for mutators); outside/negative/beyond-limit "
    "raise IndexError and change nothing; a border call leaves a border on the addressed edge and on no other cell side of the table; in-limit writes grow to exactly (max(rows,r+1), max(cols,c+1)); iteration "
    "yields exactly the addressed rectangle in order, IndexError iff a given bound is outside the table. Non-trivial: "
    "position on a boundary or a falsy bound; distinct by (method, position class, notation) / bound tuple."
)
ASSUMPTIONS = [
    "growth is exercised up to row 1200 / column 999; row 999999 only for reads and rejections (cost)",
    "lower-case A1 text is outside the documented notation: it must be rejected with IndexError or act on the same cell",
    "min > max addresses an empty rectangle",
]
EXHAUSTIVE = {"quick": False, "thorough": False}
EXHAUSTIVE_NOTE = "iter_rows/iter_cols: the full 7^4 product of bounds per shape"


def a1_text(row, col, form):
    """A1 text for (row, col) or None when not expressible. row == -1 gives 'A0'."""
    if col < 0 or col > 18277 or row < -1:
        return None
    name = a1.col_name(col)
    r = str(row + 1)
    if form == "plain":
        return name + r
    if form == "abs":
        return "$" + name + "$" + r
    if form == "colabs":
        return "$" + name + r
    if form == "rowabs":
        return name + "$" + r
    if form == "lower":
        return name.lower() + r
    raise ValueError(form)


def pos_class(row, col, rows, cols):
    def k(v, n, lim):
        if v < 0:
            return "neg"
        if v >= lim:
            return "limit+"
        if v == lim - 1:
            return "limit-1"
        if v == 0:
            return "zero"
        if v == n - 1:
            return "last"
        if v == n:
            return "last+1"
        if v > n:
            return "far"
        return "in"

    return k(row, rows, MAX_ROW) + "/" + k(col, cols, MAX_COL)


class AddrExec(Exec):
    PROP = "C11"

    def __init__(self, ctx):
        super().__init__(ctx)
        from numbers_parser import Document

        self.Document = Document
        self.doc = None
        self.table = None
        self.grid = None
        self.stroked = set()
        self.style = None

    # ---- helpers
    def dims(self):
        return len(self.grid), len(self.grid[0])

    def check(self, where):
        rows, cols = self.dims()
        t = self.table
        self.ctx.ev()
        if (t.num_rows, t.num_cols) != (rows, cols):
            self.fail(("dimensions", where), f"{where}: table is {t.num_rows}x{t.num_cols}, model {rows}x{cols}")
        vals = t.rows(values_only=True)
        if len(vals) != rows or any(len(r) != cols for r in vals):
            self.fail(("shape", where), f"{where}: rows() shape differs from model {rows}x{cols}")
        for r in range(rows):
            for c in range(cols):
                a, b = vals[r][c], self.grid[r][c]
                if not ((a is None and b is None) or (a is not None and b is not None and a == b and isinstance(a, bool) == isinstance(b, bool))):
                    self.fail(("value", where), f"{where}: cell ({r},{c}) is {a!r}, model {b!r}")
        if getattr(self, "stroked", None) and rows * cols <= 1500:
            # a border call touches the addressed edge and no other: every cell side carries a border exactly when its edge was addressed
            data = t.rows()
            for r in range(rows):
                for c in range(cols):
                    bd = data[r][c].border
                    for side, key in (("top", ("h", r, c)), ("bottom", ("h", r + 1, c)), ("left", ("v", r, c)), ("right", ("v", r, c + 1))):
                        has = getattr(bd, side) is not None
                        if has != (key in self.stroked):
                            self.fail(("border_elsewhere" if has else "border_missing", side), f"{where}: cell ({r},{c}).border.{side} is {'set' if has else 'None'}, "
                                      f"the edge was {'never' if has else ''} addressed by a set_cell_border call")
                            return

    def args_for(self, row, col, form):
        if form == "rc":
            return (row, col)
        return (a1_text(row, col, form),)

    def expect(self, row, col, form, mutator):
        """'ok' | 'index_error' | 'either' (lower case)"""
        rows, cols = self.dims()
        if form == "lower":
            return "either"
        if row < 0 or col < 0:
            return "index_error"
        if mutator:
            return "index_error" if (row >= MAX_ROW or col >= MAX_COL) else "ok"
        return "ok" if (row < rows and col < cols) else "index_error"

    def grow_model(self, row, col):
        rows, cols = self.dims()
        if row >= rows:
            self.grid.extend([None] * cols for _ in range(row + 1 - rows))
        if col >= cols:
            for g in self.grid:
                g.extend([None] * (col + 1 - cols))

    def call(self, what, fn, row, col, form, mutator, on_ok):
        exp = self.expect(row, col, form, mutator)
        rows, cols = self.dims()
        self.ctx.nt((what, pos_class(row, col, rows, cols), form)) if pos_class(row, col, rows, cols) != "in/in" or form != "rc" else None
        self.ctx.count("pos_" + pos_class(row, col, rows, cols))
        self.ctx.count("form_" + form)
        try:
            with warnings.catch_warnings():
                warnings.simplefilter("ignore")
                out = fn()
        except IndexError:
            if exp == "ok":
                self.fail(("spurious_index_error", what, form), f"{what}{self.args_for(row, col, form)!r} raised IndexError on a {rows}x{cols} table")
            self.check(f"rejected {what}")  # nothing changed
            return
        if exp == "index_error":
            self.fail(("accepted_out_of_range", what, form, "neg" if (row < 0 or col < 0) else "beyond"),
                      f"{what}{self.args_for(row, col, form)!r} on a {rows}x{cols} table did not raise IndexError")
        if exp == "either" and (row < 0 or col < 0 or (not mutator and (row >= rows or col >= cols))):
            self.fail(("lowercase_accepted_out_of_range", what), f"{what}{self.args_for(row, col, form)!r} accepted")
        on_ok(out)
        self.check(what)

    # ---- ops
    def op_new(self, rows, cols):
        self.doc = self.Document(num_rows=rows, num_cols=cols, num_header_rows=min(1, rows), num_header_cols=min(1, cols))
        self.table = self.doc.sheets[0].tables[0]
        self.grid = [[None] * cols for _ in range(rows)]
        self.style = self.doc.add_style(name="C11 style", bold=True)
        self.check("new")

    def op_fill(self):
        k = 0
        for r, g in enumerate(self.grid):
            for c in range(len(g)):
                self.table.write(r, c, k)
                g[c] = k
                k += 1
        self.check("fill")

    def op_cell(self, row, col, form):
        def ok(cell):
            if (cell.row, cell.col) != (row, col):
                self.fail(("cell_wrong_position", form), f"cell{self.args_for(row, col, form)!r} returned the cell at ({cell.row},{cell.col})")
            other = self.table.cell(row, col)
            if other is not cell:
                self.fail(("cell_identity", form), f"cell{self.args_for(row, col, form)!r} is not cell({row},{col})")
            if a1_text(row, col, "plain") and self.table.cell(a1_text(row, col, "plain")) is not cell:
                self.fail(("cell_identity_a1", form), f"cell({a1_text(row, col, 'plain')!r}) is not cell({row},{col})")

        self.call("cell", lambda: self.table.cell(*self.args_for(row, col, form)), row, col, form, False, ok)

    def op_write(self, row, col, form, value):
        v = gens.from_json(value)

        def ok(_):
            self.grow_model(row, col)
            self.grid[row][col] = v

        self.call("write", lambda: self.table.write(*self.args_for(row, col, form), v), row, col, form, True, ok)

    def op_style(self, row, col, form):
        def ok(_):
            self.grow_model(row, col)
            st_ = self.table.cell(row, col).style
            if st_ is not self.style:
                self.fail(("style_wrong_cell", form), f"set_cell_style{self.args_for(row, col, form)!r} did not style cell ({row},{col})")

        self.call("set_cell_style", lambda: self.table.set_cell_style(*self.args_for(row, col, form), self.style), row, col, form, True, ok)

    def op_format(self, row, col, form, places):
        # formatting needs a number cell: make sure there is one when the position is valid
        rows, cols = self.dims()
        if 0 <= row < rows and 0 <= col < cols:
            self.table.write(row, col, 1.5)
            self.grid[row][col] = 1.5
        else:
            # an empty (or to-be-created) cell cannot take a number format: documented TypeError is not what we probe
            return

        def ok(_):
            fv = self.table.cell(row, col).formatted_value
            want = "1." + "5".ljust(places, "0") if places else "2"
            if fv != want:
                self.fail(("format_wrong_cell", form), f"set_cell_formatting{self.args_for(row, col, form)!r} decimal_places={places}: cell ({row},{col}) shows {fv!r}, expected {want!r}")

        self.call("set_cell_formatting", lambda: self.table.set_cell_formatting(*self.args_for(row, col, form), "number", decimal_places=places),
                  row, col, form, True, ok)

    def op_border(self, row, col, form, side, width):
        from numbers_parser import RGB, Border

        b = Border(float(width), RGB(1, 2, 3), "solid")

        def ok(_):
            self.grow_model(row, col)
            key = {"top": ("h", row, col), "bottom": ("h", row + 1, col), "left": ("v", row, col), "right": ("v", row, col + 1)}[side]
            fresh = key not in self.stroked
            self.stroked.add(key)
            got = getattr(self.table.cell(row, col).border, side)
            if fresh and (got is None or not (got == b)):
                self.fail(("border_wrong_cell", form), f"set_cell_border{self.args_for(row, col, form)!r} {side}: cell ({row},{col}) reports {got}")

        self.call("set_cell_border", lambda: self.table.set_cell_border(*self.args_for(row, col, form), side, b), row, col, form, True, ok)

    def op_iter(self, which, min_row, max_row, min_col, max_col, values_only):
        check_iter(self, self.table, self.grid, which, min_row, max_row, min_col, max_col, values_only)

    def finish(self):
        self.ctx.count("histories")
        self.ctx.sample({"ops": self.log[:8], "n_ops": len(self.log)}, every=17)


def check_iter(ex, table, grid, which, min_row, max_row, min_col, max_col, values_only):
    rows, cols = len(grid), len(grid[0])
    ex.ctx.ev()

    def outside(v, n):
        return v is not None and not (0 <= v < n)

    bad = outside(min_row, rows) or outside(max_row, rows) or outside(min_col, cols) or outside(max_col, cols)
    r0 = 0 if min_row is None else min_row
    r1 = rows - 1 if max_row is None else max_row
    c0 = 0 if min_col is None else min_col
    c1 = cols - 1 if max_col is None else max_col
    fn = table.iter_rows if which == "rows" else table.iter_cols
    desc = f"iter_{which}(min_row={min_row}, max_row={max_row}, min_col={min_col}, max_col={max_col}) on {rows}x{cols}"
    try:
        got = list(fn(min_row=min_row, max_row=max_row, min_col=min_col, max_col=max_col, values_only=values_only))
    except IndexError:
        if not bad:
            ex.fail(("iter_spurious_index_error", which), f"{desc} raised IndexError")
        return
    if bad:
        ex.fail(("iter_accepted_out_of_range", which), f"{desc} did not raise IndexError (yielded {len(got)} tuples)")
    if which == "rows":
        want_pos = [[(r, c) for c in range(c0, c1 + 1)] for r in range(r0, r1 + 1)]
    else:
        want_pos = [[(r, c) for r in range(r0, r1 + 1)] for c in range(c0, c1 + 1)]
    if values_only:
        obs = [list(t) for t in got]
        want = [[grid[r][c] for r, c in line] for line in want_pos]
    else:
        obs = [[(cell.row, cell.col) for cell in t] for t in got]
        want = want_pos
    if obs != want:
        falsy = [n for n, v in (("min_row", min_row), ("max_row", max_row), ("min_col", min_col), ("max_col", max_col)) if v == 0]
        ex.fail(("iter_wrong_rectangle", which, "falsy_bound" if falsy else "other"),
                f"{desc}: yielded {len(obs)} lines of {len(obs[0]) if obs else 0}, expected {len(want)} of {len(want[0]) if want else 0}")


# ------------------------------------------------------------------------------------------

FORMS = ["rc", "rc", "plain", "plain", "abs", "colabs", "rowabs", "lower"]


def positions(rows, cols, mutator):
    """strategy for boundary-heavy (row, col)"""
    def axis(n, lim, far_cap):
        opts = [st.integers(0, max(0, n - 1)), st.just(0), st.just(n - 1), st.integers(0, max(0, n - 1)), st.integers(-3, -1), st.integers(n, n + 3),
                st.sampled_from([lim, lim + 1])]
        if not mutator:
            opts.append(st.just(lim - 1))
            opts.append(st.integers(min(n, far_cap), far_cap))
        return st.one_of(*opts)

    return st.tuples(axis(rows, MAX_ROW, 1200), axis(cols, MAX_COL, 999))


def make_machine(ctx, big):
    class Machine(RuleBasedStateMachine):
        def __init__(self):
            super().__init__()
            self.ex = AddrExec(ctx)
            self.dead = False
            self.far_used = 0

        def step(self, _op, **args):
            if self.dead:
                return
            try:
                self.ex.apply(_op, **args)
            except _Abort:
                self.dead = True

        def ensure(self, data):
            if self.ex.table is None:
                rows = data.draw(st.sampled_from([255, 256, 257, 258]) if big else st.integers(1, 40))
                cols = data.draw(st.integers(1, 4) if big else st.integers(1, 30))
                self.step("new", rows=rows, cols=cols)
                if not big and data.draw(st.booleans()):
                    self.step("fill")

        def draw_pos(self, data, mutator):
            rows, cols = self.ex.dims()
            row, col = data.draw(positions(rows, cols, mutator))
            form = data.draw(st.sampled_from(FORMS))
            if form != "rc" and a1_text(row, col, form) is None:
                form = "rc"
            return row, col, form

        @rule(data=st.data())
        def cell(self, data):
            self.ensure(data)
            if self.dead:
                return
            row, col, form = self.draw_pos(data, False)
            self.step("cell", row=row, col=col, form=form)

        @rule(data=st.data(), v=gens.simple_values)
        def write(self, data, v):
            self.ensure(data)
            if self.dead:
                return
            row, col, form = self.draw_pos(data, True)
            self.step("write", row=row, col=col, form=form, value=gens.to_json(v))

        @rule(data=st.data(), far_row=st.integers(300, 1200), far_col=st.integers(100, 999), which=st.sampled_from(["row", "col"]), v=gens.simple_values)
        def write_far(self, data, far_row, far_col, which, v):
            self.ensure(data)
            if self.dead or self.far_used >= 1 or big:
                return
            self.far_used += 1
            rows, cols = self.ex.dims()
            row, col = (far_row, data.draw(st.integers(0, cols - 1))) if which == "row" else (data.draw(st.integers(0, min(rows, 6) - 1)), far_col)
            form = data.draw(st.sampled_from(["rc", "plain", "abs"]))
            self.step("write", row=row, col=col, form=form, value=gens.to_json(v))

        @rule(data=st.data())
        def style(self, data):
            self.ensure(data)
            if self.dead:
                return
            row, col, form = self.draw_pos(data, True)
            self.step("style", row=row, col=col, form=form)

        @rule(data=st.data(), places=st.integers(0, 4))
        def fmt(self, data, places):
            self.ensure(data)
            if self.dead:
                return
            rows, cols = self.ex.dims()
            row, col = data.draw(st.tuples(st.integers(0, rows - 1), st.integers(0, cols - 1)))
            form = data.draw(st.sampled_from(FORMS))
            self.step("format", row=row, col=col, form=form, places=places)

        @rule(data=st.data(), side=st.sampled_from(["top", "right", "bottom", "left"]), width=st.sampled_from([0.5, 1.0, 2.0]))
        def border(self, data, side, width):
            self.ensure(data)
            if self.dead:
                return
            row, col, form = self.draw_pos(data, True)
            self.step("border", row=row, col=col, form=form, side=side, width=width)

        @rule(data=st.data(), which=st.sampled_from(["rows", "cols"]), values_only=st.booleans())
        def iterate(self, data, which, values_only):
            self.ensure(data)
            if self.dead:
                return
            rows, cols = self.ex.dims()

            def b(n):
                return st.none() | st.sampled_from([0, 1, n - 2, n - 1, n, -1]) | st.integers(0, n)

            self.step("iter", which=which, min_row=data.draw(b(rows)), max_row=data.draw(b(rows)), min_col=data.draw(b(cols)), max_col=data.draw(b(cols)),
                      values_only=values_only)

        def teardown(self):
            try:
                if not self.dead and self.ex.table is not None:
                    self.ex.finish()
            finally:
                self.ex.close()

    return Machine


def tasks(tier, seed):
    t = []
    for k in range(16):
        t.append(("machine", {"n": 12 if tier == "quick" else 240, "steps": 25, "seed": derive_seed(seed, "c11", k), "big": False}))
    for k in range(2 if tier == "quick" else 8):
        t.append(("machine", {"n": 2 if tier == "quick" else 12, "steps": 15, "seed": derive_seed(seed, "c11b", k), "big": True}))
    shapes = [[4, 3], [1, 1], [2, 5]] if tier == "quick" else [[4, 3], [1, 1], [2, 5], [1, 4], [6, 1], [3, 3], [257, 2]]
    for sh in shapes:
        for which in ("rows", "cols"):
            t.append(("iter_product", {"shape": sh, "which": which}))
    t.append(("limits", {}))
    return t


def run_task(ctx, lane, **kw):
    if lane == "machine":
        run_machine(ctx, make_machine(ctx, kw["big"]), kw["n"], kw["steps"], kw["seed"], exec_factory=AddrExec)
    elif lane == "iter_product":
        ex = AddrExec(ctx)
        try:
            rows, cols = kw["shape"]
            ex.apply("new", rows=rows, cols=cols)
            ex.apply("fill")
            def bounds(n):
                return [None, 0, 1, n - 2, n - 1, n, -1]
            for mr, xr, mc, xc in itertools.product(bounds(rows), bounds(rows), bounds(cols), bounds(cols)):
                ex.log = ex.log[:2]
                ex.apply("iter", which=kw["which"], min_row=mr, max_row=xr, min_col=mc, max_col=xc, values_only=(mr is None))
                ctx.nt_enum(1)
            ctx.sample({"lane": "iter_product", "shape": kw["shape"], "which": kw["which"], "combinations": 7 ** 4})
        except _Abort:
            pass
        finally:
            ex.close()
    elif lane == "limits":
        # the documented limits, probed on the rejecting side and for reads, in both notations
        ex = AddrExec(ctx)
        try:
            ex.apply("new", rows=3, cols=3)
            ex.apply("fill")
            for row, col in [(MAX_ROW, 0), (MAX_ROW + 1, 0), (0, MAX_COL), (0, MAX_COL + 1), (MAX_ROW, MAX_COL), (-1, 0), (0, -1), (-1, -1), (-2, 1), (-3, -3),
                             (MAX_ROW - 1, 0), (0, MAX_COL - 1)]:
                for form in ("rc", "plain", "abs", "lower"):
                    if form != "rc" and a1_text(row, col, form) is None:
                        continue
                    ex.log = ex.log[:2]
                    ex.apply("cell", row=row, col=col, form=form)
                    if row < MAX_ROW - 1:
                        for op in ("write", "style", "border"):
                            ex.log = ex.log[:2]
                            extra = {"value": gens.to_json(7)} if op == "write" else {"side": "top", "width": 1.0} if op == "border" else {}
                            ex.apply(op, row=row, col=col, form=form, **extra)
                    ctx.nt_enum(1)
        except _Abort:
            pass
        finally:
            ex.close()
    else:
        raise ValueError(lane)


def check_case(ctx, case):
    AddrExec(ctx).replay(case["ops"])
