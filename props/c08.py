"""C08  Formula text is a faithful infix rendering of the stored expression."""
import shutil
import tempfile
import warnings
from pathlib import Path

from hypothesis import strategies as st

from vf import fgrammar as fg
from vf.core import derive_seed, run_given

ID = "C08"
RULE = (
    "Expression trees from a recursive Hypothesis grammar over {+,-,x,/,^,&,=,<>,<,>,<=,>=, unary minus, percent, parenthesised "
    "lists (1..3 items), function calls (any id of the function map, arity 0..5, empty arguments), 1-D/2-D array literals, numbers "
    "(integer-flagged and decimal-flagged, magnitudes 1e-12..1e18), strings (any text incl. quotes), booleans, dates, cell references "
    "(relative/absolute, inside the table)}; serialised to Numbers' post-fix node array with an explicit LIST node exactly where "
    "precedence (% > ^ > x / > + - > & > comparisons, left-associative) requires it, always around a compound operand of ^, unary "
    "minus and %, plus generator-chosen redundant parentheses; node shapes are those Numbers itself stores in the fixtures. Formula "
    "archives are keyed from cells (one per cell of a 25x8 table), the document is saved and reopened and Cell.formula is read twice. "
    "Oracle: an independent precedence-climbing parser of the rendered text must yield the generated tree modulo redundant "
    "parentheses (operators, operand order, function names, argument order/count, literals compared as values); reading is "
    "deterministic, never raises and emits no warning; is_formula is true. A sanity lane re-parses every fixture formula. "
    "Non-trivial: tree has a non-commutative operator, a function with >=2 arguments or a string with a quote; distinct by tree."
)
ASSUMPTIONS = [
    "stored formula ASTs are installed through the table's formula list (formulas cannot be written through the public API); the "
    "observation is public: Document(path) -> Cell.formula",
    "no contested precedence convention is relied on: compound operands of ^, unary minus and % always carry explicit parentheses",
]

ROWS, COLS = 25, 8


def function_table():
    from numbers_parser.generated.functionmap import FUNCTION_MAP

    return {v: k for k, v in FUNCTION_MAP.items()}


def check_batch(ctx, case):
    from numbers_parser import Document
    from numbers_parser.generated import TSCEArchives_pb2 as TSCE

    trees = case["trees"]
    funcs = function_table()
    tmp = Path(tempfile.mkdtemp(prefix="vf_c08_"))
    try:
        hosts = [(i // COLS, i % COLS) for i in range(len(trees))]

        def build():
            doc = Document(num_rows=ROWS, num_cols=COLS, num_header_rows=0, num_header_cols=0)
            t = doc.sheets[0].tables[0]
            model, tid = doc._model, t._table_id
            model._formulas.add_table(tid)
            for (r, c), tree in zip(hosts, trees):
                nodes = fg.serialise(tree, (r, c), funcs)
                key = model._formulas.lookup_key(tid, TSCE.FormulaArchive(AST_node_array={"AST_node": nodes}))
                t.write(r, c, 0)
                t.cell(r, c)._formula_id = key
            with warnings.catch_warnings():
                warnings.simplefilter("ignore")
                doc.save(tmp / "f.numbers")
            return Document(tmp / "f.numbers")

        d2 = ctx.guard(("C08", "build"), case, build)
        if d2 is None:
            return
        t2 = d2.sheets[0].tables[0]
        for (r, c), tree in zip(hosts, trees):
            sub = {"lane": "trees", "trees": [tree], "host": [r, c]}
            ctx.ev()
            cell = t2.cell(r, c)
            if not cell.is_formula:
                ctx.fail(("C08", "is_formula"), sub, f"cell ({r},{c}) carries a stored formula but is_formula is False")
                continue
            with warnings.catch_warnings(record=True) as w:
                warnings.simplefilter("always")
                text = ctx.guard(("C08", "formula_raised"), sub, lambda: cell.formula)
                text2 = ctx.guard(("C08", "formula_raised"), sub, lambda: cell.formula)
            if text is None:
                continue
            if [x for x in w if "Unsupported" in type(x.message).__name__ or "unsupported" in str(x.message)]:
                ctx.fail(("C08", "warning"), sub, f"reading the formula warned: {[str(x.message) for x in w][:2]}")
            if text != text2:
                ctx.fail(("C08", "nondeterministic"), sub, f"two reads gave {text!r} and {text2!r}")
            want = fg.canon(fg.strip_parens(tree))
            try:
                got = fg.canon(fg.parse(text))
            except fg.ParseError as e:
                ctx.fail(("C08", "unparseable", kind_of(tree)), sub, f"rendered text {text!r} does not parse: {e}")
                continue
            if got != want:
                big = big_decimals(tree)
                if big and equal_modulo(got, want, big):
                    # every difference is a decimal-flagged literal >= 1e16 (rendered with a wrong number of zeros)
                    ctx.fail(("C08", "big_decimal_literal"), {**sub, "literals": sorted(big)}, f"rendered {text!r}: literal(s) {sorted(big)} of the stored expression are rendered with a different magnitude")
                else:
                    ctx.fail(("C08", "tree_differs", first_difference(got, want)), sub, f"rendered {text!r} reads as {got}, stored expression is {want}")
            feats = fg.features(tree)
            for f in feats:
                ctx.count("feat_" + f)
            if feats & {"noncommutative", "func_2plus_args", "string_with_quote"}:
                ctx.nt(fg.canon(tree))
            ctx.sample({"tree": fg.canon(tree), "host": [r, c], "text": text}, every=397)
    finally:
        shutil.rmtree(tmp, ignore_errors=True)


def big_decimals(t, acc=None):
    """canonical texts of decimal-flagged literals >= 1e16 in the tree"""
    from decimal import Decimal

    acc = set() if acc is None else acc
    if isinstance(t, (list, tuple)):
        if len(t) == 3 and t[0] == "num" and t[1] == "dec" and Decimal(t[2]) >= Decimal(10) ** 16:
            acc.add("D:" + format(Decimal(t[2]).normalize(), "f"))
        else:
            for x in t:
                big_decimals(x, acc)
    return acc


def equal_modulo(got, want, wild):
    if isinstance(want, list) and len(want) == 2 and want[0] == "num" and want[1] in wild:
        return isinstance(got, list) and len(got) == 2 and got[0] == "num"
    if isinstance(got, list) and isinstance(want, list):
        return len(got) == len(want) and all(equal_modulo(g, w, wild) for g, w in zip(got, want))
    return got == want


def kind_of(tree):
    return tree[0]


def first_difference(a, b):
    """kind of the outermost node at which the two canonical trees part"""
    if isinstance(a, list) and isinstance(b, list) and a and b and isinstance(a[0], str) and a[0] == b[0] and len(a) == len(b):
        for x, y in zip(a[1:], b[1:]):
            if x != y:
                inner = first_difference(x, y)
                return inner if inner != "leaf" else str(a[0])
        return str(a[0])
    if isinstance(a, list) and a and isinstance(a[0], str) and isinstance(b, list) and b and isinstance(b[0], str):
        return f"{b[0]}->{a[0]}"
    return "leaf"


def check_fixture_formulas(ctx, name):
    """Sanity lane: every formula Numbers stored in a fixture must be readable by the oracle parser (it shares no code
    with the library), otherwise the parser - not the library - is at fault."""
    from numbers_parser import Document
    from vf import fixtures

    with warnings.catch_warnings():
        warnings.simplefilter("ignore")
        doc = Document(fixtures.DATA / name)
        n = bad = 0
        for sheet in doc.sheets:
            for table in sheet.tables:
                for row in table.rows():
                    for cell in row:
                        if cell.is_formula:
                            try:
                                f = cell.formula
                            except Exception:
                                continue
                            if not isinstance(f, str):
                                continue
                            n += 1
                            try:
                                fg.parse(f)
                            except fg.ParseError:
                                bad += 1
    ctx.count("fixture_formulas_parsed", n - bad)
    ctx.count("fixture_formulas_outside_grammar", bad)  # named references, cross-table prefixes, errors: C09's domain
    ctx.ev(n)


def tasks(tier, seed):
    t = []
    for k in range(16):
        t.append(("trees", {"n": 4 if tier == "quick" else 60, "seed": derive_seed(seed, "c08", k), "wide": k % 4 == 0}))
    for name in ["test-all-formulas.numbers", "create-formulas.numbers", "test-extra-formulas.numbers"]:
        t.append(("fixture", {"name": name}))
    return t


def run_task(ctx, lane, **kw):
    if lane == "trees":
        funcs = sorted(function_table())
        strat = st.lists(fg.trees(funcs, ROWS, COLS, wide_numbers=kw["wide"]), min_size=ROWS * COLS, max_size=ROWS * COLS)

        def body(trees):
            check_batch(ctx, {"lane": "trees", "trees": trees})

        from hypothesis import Phase

        run_given(ctx, strat, body, kw["n"] + 1, kw["seed"], phases=(Phase.explicit, Phase.generate))
    elif lane == "fixture":
        check_fixture_formulas(ctx, kw["name"])
    else:
        raise ValueError(lane)


def check_case(ctx, case):
    trees = case["trees"]
    if "host" in case and len(trees) == 1:
        # re-create the same host position: pad with trivial formulas before it
        r, c = case["host"]
        pad = [["num", "int", "1"]] * (r * COLS + c)
        trees = pad + trees
    check_batch(ctx, {"lane": "trees", "trees": trees})
