"""C12  Merged regions are reported consistently, immediately and after reload."""
import itertools
import warnings

from hypothesis import strategies as st
from hypothesis.stateful import RuleBasedStateMachine, rule

from vf import a1, gens
from vf.core import derive_seed, run_machine
from vf.hist import Exec, _Abort

ID = "C12"
RULE = (
    "Tables 2..12 x 2..12; sets of 1..5 pairwise disjoint rectangles (1xN, Nx1, NxM, touching, at edges) merged singly "
    "or as a list; then a history of writes (anchors, outside cells, placeholders), tables/sheets added before and after a save (they must show no merges), row/column insertions/deletions before, inside and "
    "after the rectangles, and save/reopen at any point (continuing on either handle). Enumerated lane: every rectangle "
    "of a 4x4 (quick) / 6x6 (thorough) table. Oracle: rectangle-set + grid model; anchor is_merged with size (h,w); every "
    "other cell of a rectangle is a MergedCell with value None, is_merged False and rect/merge_range naming its rectangle; "
    "outside cells keep class/value and size (1,1); merge_ranges == sorted A1 ranges; same picture on the open document "
    "and the reopened file. Edits entirely above/left shift a rectangle, entirely below/right leave it; for cut-through "
    "edits only internal consistency and open==reopened are required. Non-trivial: rectangle with both sides >=2, or >=2 "
    "rectangles, or a structural edit after a merge; distinct by op log."
)
ASSUMPTIONS = [
    "a write aimed at a placeholder may be refused with an error or a warning (the docs do not say); either way the rectangle's picture must stay as it is",
    "for an edit that cuts through a rectangle the resulting shape is unspecified; only consistency is demanded",
]
EXHAUSTIVE = {"quick": False, "thorough": False}
EXHAUSTIVE_NOTE = "every rectangle (not 1x1) of a 4x4 table (quick) / 6x6 table (thorough), each with save+reopen"


def rng(r0, c0, r1, c1):
    return a1.cell_name(r0, c0) + ":" + a1.cell_name(r1, c1)


class MergeExec(Exec):
    PROP = "C12"

    def __init__(self, ctx):
        super().__init__(ctx)
        from numbers_parser import Document

        self.Document = Document
        self.doc = None
        self.grid = None
        self.rects = []
        self.loose = False
        self.moved = False  # a structural edit shifted or cut a merged rectangle (known-finding attribution)
        self.flags = set()
        self.nsaves = 0
        self.extra = []   # (sheet index, table index) of tables added later: nothing was ever merged in them

    @property
    def table(self):
        return self.doc.sheets[0].tables[0]

    def check_extra(self, doc, where):
        for si, ti in self.extra:
            t = doc.sheets[si].tables[ti]
            self.ctx.ev()
            merged = [(r, c) for r, row in enumerate(t.rows()) for c, cell in enumerate(row) if type(cell).__name__ == "MergedCell" or cell.is_merged]
            if t.merge_ranges or merged:
                self.fail(self.sig("added_table_has_merges", where),
                          f"{where}: table [{si}][{ti}], added after the merges and never merged itself, reports merge_ranges {list(t.merge_ranges)} and merged cells {merged[:6]}")

    def sig(self, *parts):
        return (("moved_merge",) if self.moved else ()) + parts

    # ---- the picture
    def picture(self, table):
        """(anchors {(r,c): size}, placeholders {(r,c): rect/merge_range}, others {(r,c): (cls, value, size, is_merged)}, merge_ranges)"""
        anchors, place, others = {}, {}, {}
        for r, row in enumerate(table.rows()):
            for c, cell in enumerate(row):
                cls = type(cell).__name__
                if cls == "MergedCell":
                    place[(r, c)] = (cell.rect, cell.merge_range, cell.value, cell.is_merged)
                elif cell.is_merged:
                    anchors[(r, c)] = (tuple(cell.size), cell.value)
                else:
                    others[(r, c)] = (cls, cell.value, cell.size, cell.is_merged)
        return anchors, place, others, list(table.merge_ranges)

    def check_view(self, table, where):
        rows, cols = len(self.grid), len(self.grid[0])
        self.ctx.ev()
        if (table.num_rows, table.num_cols) != (rows, cols):
            self.fail(self.sig("dimensions", where), f"{where}: table is {table.num_rows}x{table.num_cols}, model {rows}x{cols}")
        anchors, place, others, ranges = self.picture(table)
        # --- consistency (always)
        rect_of = {}
        for (r, c), (size, _v) in anchors.items():
            rect = (r, c, r + size[0] - 1, c + size[1] - 1)
            for rr in range(rect[0], rect[2] + 1):
                for cc in range(rect[1], rect[3] + 1):
                    if (rr, cc) in rect_of:
                        self.fail(self.sig("overlap", where), f"{where}: cell ({rr},{cc}) lies in two anchors' rectangles")
                    rect_of[(rr, cc)] = rect
                    if (rr, cc) != (r, c) and (rr, cc) not in place:
                        self.fail(self.sig("missing_placeholder", where),
                                  f"{where}: anchor ({r},{c}) has size {size} but cell ({rr},{cc}) is not a merged placeholder ({others.get((rr, cc))})")
        for (r, c), (rect, mrange, value, is_merged) in place.items():
            if (r, c) not in rect_of:
                self.fail(self.sig("orphan_placeholder", where), f"{where}: placeholder ({r},{c}) (rect {rect}) lies in no anchor's rectangle")
            if tuple(rect or ()) != rect_of[(r, c)] or mrange != rng(*rect_of[(r, c)]):
                self.fail(self.sig("placeholder_wrong_rect", where), f"{where}: placeholder ({r},{c}) names {rect}/{mrange}, it lies in {rect_of[(r, c)]}")
            if value is not None or is_merged:
                self.fail(self.sig("placeholder_state", where), f"{where}: placeholder ({r},{c}) has value {value!r}, is_merged {is_merged}")
        want_ranges = sorted(rng(*rect) for rect in {v for v in rect_of.values()})
        if ranges != want_ranges:
            self.fail(self.sig("merge_ranges_inconsistent", where), f"{where}: merge_ranges {ranges}, anchors give {want_ranges}")
        # --- exact picture
        if not self.loose:
            want = sorted(rng(*r) for r in self.rects)
            if ranges != want:
                self.fail(self.sig("merge_ranges", where), f"{where}: merge_ranges {ranges}, model {want}")
            for rect in self.rects:
                r0, c0, r1, c1 = rect
                a = anchors.get((r0, c0))
                if a is None or a[0] != (r1 - r0 + 1, c1 - c0 + 1):
                    self.fail(self.sig("anchor", where), f"{where}: anchor of {rng(*rect)} reports {a}")
            for (r, c), (cls, value, size, is_merged) in others.items():
                if size != (1, 1):
                    self.fail(self.sig("outside_size", where), f"{where}: unmerged cell ({r},{c}) reports size {size}")
            for r in range(rows):
                for c in range(cols):
                    got = anchors[(r, c)][1] if (r, c) in anchors else None if (r, c) in place else others[(r, c)][1]
                    want_v = self.grid[r][c]
                    if not ((got is None and want_v is None) or (got is not None and want_v is not None and got == want_v)):
                        self.fail(self.sig("value", where), f"{where}: cell ({r},{c}) is {got!r}, model {want_v!r}")
        return anchors, place, ranges

    # ---- ops
    def op_new(self, rows, cols):
        self.doc = self.Document(num_rows=rows, num_cols=cols, num_header_rows=0, num_header_cols=0)
        self.grid = [[None] * cols for _ in range(rows)]
        k = 0
        for r in range(rows):
            for c in range(cols):
                self.table.write(r, c, k)
                self.grid[r][c] = k
                k += 1
        self.check_view(self.table, "new")

    def op_merge(self, rects, as_list, corners=0):
        """corners: which two opposite corners name each rectangle - 0 top-left:bottom-right, 1 top-right:bottom-left,
        2 bottom-left:top-right, 3 bottom-right:top-left (all four are A1 spellings of the same rectangle)"""
        def spell(r0, c0, r1, c1):
            return [rng(r0, c0, r1, c1), rng(r0, c1, r1, c0), rng(r1, c0, r0, c1), rng(r1, c1, r0, c0)][corners % 4]

        ranges = [spell(*r) for r in rects]
        if corners % 4 and any(r[0] != r[2] or r[1] != r[3] for r in rects):
            self.flags.add("range_named_by_other_corners")
        if as_list:
            self.table.merge_cells(ranges)
        else:
            for x in ranges:
                self.table.merge_cells(x)
        for r0, c0, r1, c1 in rects:
            self.rects.append((r0, c0, r1, c1))
            for r in range(r0, r1 + 1):
                for c in range(c0, c1 + 1):
                    if (r, c) != (r0, c0):
                        self.grid[r][c] = None
            if r1 > r0 and c1 > c0:
                self.flags.add("2d_rect")
        if len(self.rects) >= 2:
            self.flags.add("multi_rect")
        self.check_view(self.table, "merge")

    def op_write(self, row, col, value):
        v = gens.from_json(value)
        self.table.write(row, col, v)
        self.grid[row][col] = v
        self.check_view(self.table, "write")

    def op_write_placeholder(self, row, col, value):
        """A write aimed at a placeholder may be refused (error or warning) but the picture stays the rectangle's."""
        v = gens.from_json(value)
        try:
            with warnings.catch_warnings():
                warnings.simplefilter("ignore")
                self.table.write(row, col, v)
            self.ctx.count("placeholder_write_returned")
        except (IndexError, TypeError, ValueError):
            self.ctx.count("placeholder_write_refused")
        self.flags.add("placeholder_write")
        self.check_view(self.table, "write_placeholder")

    def op_add_table(self, rows, cols, new_sheet):
        if new_sheet:
            self.doc.add_sheet(f"S{len(self.doc.sheets) + 1}", "T", rows, cols)
            self.extra.append((len(self.doc.sheets) - 1, 0))
        else:
            self.doc.sheets[0].add_table(f"X{len(self.doc.sheets[0].tables) + 1}", num_rows=rows, num_cols=cols)
            self.extra.append((0, len(self.doc.sheets[0].tables) - 1))
        self.flags.add("table_added_after_save" if self.nsaves else "table_added")
        self.check_extra(self.doc, "add_table")
        self.check_view(self.table, "add_table")

    def _shift(self, axis, at, n, kind):
        """update rectangles for an insertion (kind=+1, before index `at`) / deletion (kind=-1, of [at, at+n))"""
        new = []
        for r0, c0, r1, c1 in self.rects:
            lo, hi = (r0, r1) if axis == "row" else (c0, c1)
            if kind > 0:
                if at <= lo:
                    lo, hi = lo + n, hi + n
                    self.moved = True
                elif at <= hi:
                    self.loose = True
                    self.moved = True
            else:
                if at + n <= lo:
                    lo, hi = lo - n, hi - n
                    self.moved = True
                elif at <= hi:
                    self.loose = True
                    self.moved = True
            new.append((lo, c0, hi, c1) if axis == "row" else (r0, lo, r1, hi))
        self.rects = new
        if self.rects:
            self.flags.add("structural_after_merge")

    def op_add_row(self, count, start):
        self.table.add_row(count, start)
        cols = len(self.grid[0])
        at = len(self.grid) if start is None else start
        self.grid[at:at] = [[None] * cols for _ in range(count)]
        if start is not None:
            self._shift("row", at, count, +1)
        elif self.rects:
            self.flags.add("structural_after_merge")
        self.check_view(self.table, "add_row")

    def op_add_column(self, count, start):
        self.table.add_column(count, start)
        at = len(self.grid[0]) if start is None else start
        for g in self.grid:
            g[at:at] = [None] * count
        if start is not None:
            self._shift("col", at, count, +1)
        elif self.rects:
            self.flags.add("structural_after_merge")
        self.check_view(self.table, "add_column")

    def op_delete_row(self, count, start):
        self.table.delete_row(count, start)
        at = len(self.grid) - count if start is None else start
        del self.grid[at:at + count]
        self._shift("row", at, count, -1)
        self.check_view(self.table, "delete_row")

    def op_delete_column(self, count, start):
        self.table.delete_column(count, start)
        at = len(self.grid[0]) - count if start is None else start
        for g in self.grid:
            del g[at:at + count]
        self._shift("col", at, count, -1)
        self.check_view(self.table, "delete_column")

    def op_reopen(self, switch):
        path = self.tmpdir() / f"m{self.nsaves}.numbers"
        self.nsaves += 1
        with warnings.catch_warnings():
            warnings.simplefilter("ignore")
            self.doc.save(path)
            open_view = self.check_view(self.table, "after_save")
            re = self.Document(path)
        re_view = self.check_view(re.sheets[0].tables[0], "reopened")
        self.check_extra(self.doc, "after_save")
        self.check_extra(re, "reopened")
        if open_view != re_view:
            self.fail(self.sig("open_vs_reopened"), f"open document shows {open_view[2]} / {sorted(open_view[1])[:6]}, reopened file {re_view[2]} / {sorted(re_view[1])[:6]}")
        if self.rects:
            self.flags.add("reopen_after_merge")
        if switch:
            self.doc = re

    def finish(self):
        for f in sorted(self.flags):
            self.ctx.count("hist_" + f)
        self.ctx.count("histories")
        if {"2d_rect", "multi_rect", "structural_after_merge"} & self.flags:
            self.ctx.nt(self.log)
        self.ctx.sample({"ops": self.log[:8], "n_ops": len(self.log)}, every=19)


# ------------------------------------------------------------------------------------------


@st.composite
def disjoint_rects(draw, rows, cols, taken, max_n=3):
    """1..max_n pairwise disjoint rectangles (not 1x1), disjoint from `taken`, built by construction
    from a guillotine split of the grid."""
    blocks = [(0, 0, rows - 1, cols - 1)]
    for _ in range(draw(st.integers(0, 4))):
        i = draw(st.integers(0, len(blocks) - 1))
        r0, c0, r1, c1 = blocks[i]
        if draw(st.booleans()) and r1 > r0:
            k = draw(st.integers(r0, r1 - 1))
            blocks[i:i + 1] = [(r0, c0, k, c1), (k + 1, c0, r1, c1)]
        elif c1 > c0:
            k = draw(st.integers(c0, c1 - 1))
            blocks[i:i + 1] = [(r0, c0, r1, k), (r0, k + 1, r1, c1)]
    out = []
    for b in draw(st.permutations(blocks)):
        if len(out) >= max_n:
            break
        r0, c0, r1, c1 = b
        # a sub-rectangle of the block (often the whole block, so rectangles touch)
        if draw(st.integers(0, 2)) == 0:
            r0 = draw(st.integers(r0, r1))
            r1 = draw(st.integers(r0, r1))
            c0 = draw(st.integers(c0, c1))
            c1 = draw(st.integers(c0, c1))
        r1 = min(r1, r0 + 4)
        c1 = min(c1, c0 + 4)
        if (r0, c0) == (r1, c1):
            continue
        if any(not (r1 < a or c <= r0 - 1 or c1 < b_ or d < c0) for a, b_, c, d in taken):
            continue
        out.append([r0, c0, r1, c1])
    return out


def make_machine(ctx):
    class Machine(RuleBasedStateMachine):
        def __init__(self):
            super().__init__()
            self.ex = MergeExec(ctx)
            self.dead = False

        def step(self, _op, **args):
            if self.dead:
                return
            try:
                self.ex.apply(_op, **args)
            except _Abort:
                self.dead = True

        def ensure(self, data):
            if self.ex.doc is None:
                self.step("new", rows=data.draw(st.integers(2, 12)), cols=data.draw(st.integers(2, 12)))

        @rule(data=st.data(), as_list=st.booleans())
        def merge(self, data, as_list):
            self.ensure(data)
            if self.dead or self.ex.loose or len(self.ex.rects) >= 5:
                return
            rows, cols = len(self.ex.grid), len(self.ex.grid[0])
            rects = data.draw(disjoint_rects(rows, cols, list(self.ex.rects)))
            if rects:
                corners = data.draw(st.sampled_from([0, 0, 0, 0, 1, 2, 3]))
                if corners:
                    self.step("merge", rects=rects, as_list=as_list, corners=corners)
                else:
                    self.step("merge", rects=rects, as_list=as_list)

        @rule(data=st.data(), v=gens.simple_values)
        def write(self, data, v):
            self.ensure(data)
            if self.dead or self.ex.loose:
                return
            rows, cols = len(self.ex.grid), len(self.ex.grid[0])
            if self.ex.rects and data.draw(st.booleans()):
                r0, c0, _, _ = data.draw(st.sampled_from(self.ex.rects))
                r, c = r0, c0
            else:
                r, c = data.draw(st.integers(0, rows - 1)), data.draw(st.integers(0, cols - 1))
            for r0, c0, r1, c1 in self.ex.rects:
                if r0 <= r <= r1 and c0 <= c <= c1 and (r, c) != (r0, c0):
                    return
            self.step("write", row=r, col=c, value=gens.to_json(v))

        @rule(data=st.data(), v=gens.simple_values)
        def write_placeholder(self, data, v):
            self.ensure(data)
            if self.dead or self.ex.loose or not self.ex.rects:
                return
            r0, c0, r1, c1 = data.draw(st.sampled_from(self.ex.rects))
            r, c = data.draw(st.integers(r0, r1)), data.draw(st.integers(c0, c1))
            if (r, c) == (r0, c0):
                r, c = r1, c1
            self.step("write_placeholder", row=r, col=c, value=gens.to_json(v))

        @rule(data=st.data(), rows=st.integers(1, 6), cols=st.integers(1, 6), new_sheet=st.booleans())
        def add_table(self, data, rows, cols, new_sheet):
            self.ensure(data)
            if self.dead or len(self.ex.extra) >= 3:
                return
            self.step("add_table", rows=rows, cols=cols, new_sheet=new_sheet)

        @rule(data=st.data(), axis=st.sampled_from(["row", "column"]), count=st.integers(1, 2), where=st.sampled_from(["end", "after", "before", "any"]))
        def add(self, data, axis, count, where):
            self.ensure(data)
            if self.dead:
                return
            n = len(self.ex.grid) if axis == "row" else len(self.ex.grid[0])
            if n + count > 16:
                return
            his = [(r[2] if axis == "row" else r[3]) for r in self.ex.rects]
            los = [(r[0] if axis == "row" else r[1]) for r in self.ex.rects]
            if where == "end":
                start = None
            elif where == "after" and his and max(his) + 1 <= n - 1:
                start = data.draw(st.integers(max(his) + 1, n - 1))
            elif where == "before" and los:
                start = data.draw(st.integers(0, min(los)))
            else:
                start = data.draw(st.integers(0, n - 1))
            self.step("add_" + axis, count=count, start=start)

        @rule(data=st.data(), axis=st.sampled_from(["row", "column"]), count=st.integers(1, 2), where=st.sampled_from(["end", "after", "any"]))
        def delete(self, data, axis, count, where):
            self.ensure(data)
            if self.dead:
                return
            n = len(self.ex.grid) if axis == "row" else len(self.ex.grid[0])
            if n - count < 2:
                return
            his = [(r[2] if axis == "row" else r[3]) for r in self.ex.rects]
            if where == "end":
                start = None
                if his and max(his) >= n - count:
                    return  # would cut a rectangle from the end: covered by 'any'
            elif where == "after" and his and max(his) + 1 <= n - count:
                start = data.draw(st.integers(max(his) + 1, n - count))
            else:
                start = data.draw(st.integers(0, n - count))
            self.step("delete_" + axis, count=count, start=start)

        @rule(data=st.data(), switch=st.booleans())
        def reopen(self, data, switch):
            self.ensure(data)
            if self.dead or self.ex.nsaves >= 3:
                return
            self.step("reopen", switch=switch)

        def teardown(self):
            try:
                if not self.dead and self.ex.doc is not None:
                    self.ex.finish()
            finally:
                self.ex.close()

    return Machine


def check_tall(ctx, case):
    """A rectangle below row 65535 (tables may have 1,000,000 rows): the same picture after reload."""
    from numbers_parser import Document
    import tempfile
    import shutil
    from pathlib import Path

    tmp = Path(tempfile.mkdtemp(prefix="vf_c12t_"))
    try:
        r0, r1 = case["r0"], case["r1"]
        with warnings.catch_warnings():
            warnings.simplefilter("ignore")
            d = Document(num_rows=r1 + 2, num_cols=2, num_header_rows=0, num_header_cols=0)
            t = d.sheets[0].tables[0]
            t.merge_cells(rng(r0, 0, r1, 1))
            open_ranges = list(t.merge_ranges)
            d.save(tmp / "tall.numbers")
            t2 = Document(tmp / "tall.numbers").sheets[0].tables[0]
        ctx.ev()
        want = [rng(r0, 0, r1, 1)]
        if open_ranges != want:
            ctx.fail(("C12", "tall_merge", "open"), case, f"merge_ranges on the open document {open_ranges}, merged {want}")
        got = list(t2.merge_ranges)
        if got != want or not t2.cell(r0, 0).is_merged or type(t2.cell(r1, 1)).__name__ != "MergedCell":
            ctx.fail(("C12", "merge_beyond_row_65535") if r1 >= 65536 else ("C12", "tall_merge", "reopened"), case,
                     f"rectangle {want[0]}: the reopened file reports merge_ranges {got}, anchor merged {t2.cell(r0, 0).is_merged}, far corner {type(t2.cell(r1, 1)).__name__}")
        ctx.nt(("tall", r0, r1))
        ctx.count("tall_tables")
    finally:
        shutil.rmtree(tmp, ignore_errors=True)


def tasks(tier, seed):
    t = [("tall", {"r0": 65537, "r1": 65538}), ("tall", {"r0": 65530, "r1": 65534})]
    for k in range(16):
        t.append(("machine", {"n": 10 if tier == "quick" else 160, "steps": 14 if tier == "quick" else 25, "seed": derive_seed(seed, "c12", k)}))
    n = 4 if tier == "quick" else 6
    for r0 in range(n):
        t.append(("rectangles", {"n": n, "r0": r0}))
    return t


def run_task(ctx, lane, **kw):
    if lane == "machine":
        run_machine(ctx, make_machine(ctx), kw["n"], kw["steps"], kw["seed"], exec_factory=MergeExec)
    elif lane == "tall":
        check_tall(ctx, {"lane": "tall", "r0": kw["r0"], "r1": kw["r1"]})
    elif lane == "rectangles":
        n, r0 = kw["n"], kw["r0"]
        for c0, r1, c1 in itertools.product(range(n), range(r0, n), range(n)):
            if c1 < c0 or (r0, c0) == (r1, c1):
                continue
            ex = MergeExec(ctx)
            try:
                ex.apply("new", rows=n, cols=n)
                ex.apply("merge", rects=[[r0, c0, r1, c1]], as_list=(r1 + c1) % 2 == 0)
                ex.apply("write", row=r0, col=c0, value=gens.to_json("anchor"))
                ex.apply("reopen", switch=True)
                ex.apply("write", row=r0, col=c0, value=gens.to_json(7))
                ex.apply("reopen", switch=False)
                ex.finish()
                ctx.nt_enum(1)
            except _Abort:
                pass
            finally:
                ex.close()
    else:
        raise ValueError(lane)


def check_case(ctx, case):
    if case.get("lane") == "tall":
        return check_tall(ctx, case)
    MergeExec(ctx).replay(case["ops"])
