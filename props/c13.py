"""C13  Displayed numbers agree numerically with the stored value."""
import shutil
import tempfile
import warnings
from pathlib import Path

from hypothesis import strategies as st

from vf import gens, numfmt
from vf.core import derive_seed, run_given

ID = "C13"
RULE = (
    "Values from C01's numeric domain with |x| < 10^15 plus exact ties at every place, powers of ten +- one unit, values that "
    "carry (999.995), +-0.0 and values that round to zero; formats through set_cell_formatting: number/percentage (places "
    "0..10 or automatic, separator, 4 negative styles), currency (every code in the library's table, accounting on/off under each of the four negative styles; half of the cells that get several formats in turn are displayed under each earlier format first), "
    "scientific (places 0..10), base (2..36, places 0..8, minus sign / two's complement for 2, 8, 16), fraction (9 accuracies), "
    "rating (0..5, whole and fractional). One cell in six is first given another generated format, then the one under test (the last format decides). 150..400 (value, format) cells per document; formatted_value is read on the open document and after save+"
    "reopen (both must agree). Oracle (vf/numfmt.py): decoration stripped by notation, the text read as an exact Fraction P, "
    "|P - V| <= 1/2 unit of the last displayed place with V the exact 15-digit decimal of the value (either tie rule accepted); "
    "decimals shown == places asked; separators iff asked and only between 3-digit groups; exactly one negative marker of the "
    "chosen style for a negative value that does not round to zero; zero padding to base_places; two's complement = 2^w + value "
    "for some w >= 32; fractions: denominator == accuracy and |P-V| <= 1/(2d), or best approximation with <= n-digit denominator. "
    "Non-trivial: value is not an integer in 0..999 or the format has a non-default option; distinct by (value, format)."
)
ASSUMPTIONS = [
    "either tie-breaking rule is accepted (inclusive half-unit tolerance)",
    "automatic decimal places ask for no particular count: only the numeric relation (to 15 significant digits) is required",
    "RED negative style shows no sign in text (the colour carries it), per the documentation of NegativeNumberStyle",
]

ACCURACIES = [0xFFFFFFFD, 0xFFFFFFFE, 0xFFFFFFFF, 2, 4, 8, 16, 10, 100]


def currencies():
    from numbers_parser.currencies import CURRENCIES

    return sorted(CURRENCIES)


@st.composite
def formats(draw, codes):
    kind = draw(st.sampled_from(["number", "number", "percentage", "currency", "currency", "scientific", "base", "base", "fraction", "fraction"]))
    kw = {}
    if kind in ("number", "percentage", "currency"):
        p = draw(st.none() | st.integers(0, 10))
        if p is not None:
            kw["decimal_places"] = p
        kw["show_thousands_separator"] = draw(st.booleans())
        kw["negative_style"] = draw(st.integers(0, 3))
        if kind == "currency":
            kw["currency_code"] = draw(st.sampled_from(codes) | st.sampled_from(["GBP", "USD", "EUR", "JPY"]))
            # accounting layout under each of the four negative styles: with a style other than MINUS the library warns that the
            # accounting layout overrides it, so the text is the accounting one (one pair of parentheses)
            kw["use_accounting_style"] = draw(st.booleans())
    elif kind == "scientific":
        kw["decimal_places"] = draw(st.integers(0, 10))
    elif kind == "base":
        kw["base"] = draw(st.integers(2, 36) | st.sampled_from([2, 8, 16, 10]))
        kw["base_places"] = draw(st.integers(0, 8))
        if kw["base"] in (2, 8, 16):
            kw["base_use_minus_sign"] = draw(st.booleans())
    elif kind == "fraction":
        kw["fraction_accuracy"] = draw(st.sampled_from(ACCURACIES))
    return kind, kw


@st.composite
def values(draw, kind, kw):
    """numeric values, boundary-heavy relative to the format's precision"""
    places = kw.get("decimal_places") if kind != "base" else 0
    if places is None:
        places = draw(st.integers(0, 6))
    choice = draw(st.integers(0, 9))
    if kind == "base":
        v = draw(st.integers(-(2**49), 2**49) | st.integers(-300, 300) | st.sampled_from([0, 1, -1, 2**31, -(2**31), -(2**31) - 1, 2**32, -(2**32), 255, -255])
                 | st.tuples(st.integers(30, 49), st.sampled_from([-1, 0, 1]), st.sampled_from([-1, 1])).map(lambda t: t[2] * (2 ** t[0] + t[1])))
        if choice == 0:
            return v + draw(st.sampled_from([0.5, 0.25, -0.25, 0.75]))
        if choice == 1:
            return draw(st.sampled_from([0.3, -0.3, 0.5, -0.5, 0.0, -0.0, 0.49, -0.49]))
        return v
    if kind == "fraction":
        if choice < 5:
            w = draw(st.integers(-20, 20))
            d = draw(st.sampled_from([2, 3, 4, 7, 8, 10, 16, 100, 999, 64]))
            n = draw(st.integers(0, d))
            return float(w) + n / d if w >= 0 else float(w) - n / d
        return draw(st.sampled_from([-1.25, 1.25, 0.5, -0.5, 0.0, 1.99, -1.99, 0.995, 3.999, 0.001, -0.001, 100.5])) if choice < 7 else draw(gens.price())
    if choice == 0:  # exact tie at the last displayed place
        k = draw(st.integers(-10**6, 10**6))
        return (2 * k + 1) / (2 * 10**places) if places <= 8 else k / 10
    if choice == 1:  # carries
        return draw(st.sampled_from([999.995, 9.995, 0.995, 99999.5, 0.95, 9.5, 1999.9996, -999.995, -0.995]))
    if choice == 2:  # rounds to zero / zero
        return draw(st.sampled_from([0.0, -0.0, 0.004, -0.004, 0.4, -0.4, 0.00004, -0.00004, 0.5 / 10**6, 0.0049, -0.0049]))
    if choice == 3:  # powers of ten +- one unit
        k = draw(st.integers(0, 12))
        return float(10**k) + draw(st.sampled_from([0, 1, -1])) * 10.0 ** (-min(places, 14 - k))
    if choice == 4:
        return draw(st.integers(-10**14, 10**14))
    if choice == 5:
        return draw(gens.price())
    v = draw(gens.float15(max_exp=14))
    if kind == "percentage" and abs(v) >= 1e13:
        v = float("%.14e" % (v / 1000))   # keep the quotient at 15 significant digits
    return v


def nontrivial(v, kind, kw):
    return not (isinstance(v, int) and 0 <= v < 1000) or any(x not in (None, False, 0) for x in kw.values())


def check_document(ctx, case):
    from numbers_parser import Document
    from vf.docgen import _fmt_kwargs

    cells = case["cells"]
    tmp = Path(tempfile.mkdtemp(prefix="vf_c13_"))
    try:
        shown_between = set()

        def build():
            doc = Document(num_rows=max(2, len(cells)), num_cols=2, num_header_rows=0, num_header_cols=0)
            t = doc.sheets[0].tables[0]
            with warnings.catch_warnings():
                warnings.simplefilter("ignore")
                for i, (vj, kind, kw, *prior) in enumerate(cells):
                    t.write(i, 0, gens.from_json(vj))
                    for k0, kw0 in prior:  # formats applied earlier to the same cell: the last one decides
                        t.set_cell_formatting(i, 0, k0, **_fmt_kwargs(k0, kw0))
                        if len(repr(vj)) % 2 == 0:
                            # the cell is displayed under the earlier format before it gets the next one (decided by the case's
                            # content, so that a single-cell replay does the same)
                            _ = t.cell(i, 0).formatted_value
                            shown_between.add(i)
                    t.set_cell_formatting(i, 0, kind, **_fmt_kwargs(kind, kw))
            return doc

        doc = ctx.guard(("C13", "build"), case, build)
        if doc is None:
            return
        t = doc.sheets[0].tables[0]
        texts = []
        for i, (vj, kind, kw, *prior) in enumerate(cells):
            v = gens.from_json(vj)
            sub = {"lane": "cells", "cells": [cells[i]]}
            ctx.ev()
            if prior:
                ctx.count("reformatted_cells")
            if i in shown_between:
                ctx.count("reformatted_cells_displayed_in_between")
            text = ctx.guard(("C13", "formatted_value_raised", kind), sub, lambda: t.cell(i, 0).formatted_value)
            texts.append(text)
            if text is None:
                continue
            try:
                numfmt.check(kind, kw, v, text)
            except numfmt.Bad as b:
                ctx.fail(("C13", kind, b.kind) + (("after_" + prior[-1][0],) if prior else ()), sub,
                         f"{kind} {kw} value {v!r}" + (f" (cell formatted as {prior[-1][0]} before)" if prior else "") + f": {b}")
            if nontrivial(v, kind, kw):
                ctx.nt((repr(v), kind, sorted(kw.items())))
            ctx.count("kind_" + kind)
            ctx.sample({"value": repr(v), "format": [kind, kw], "text": text}, every=211)
        # after a cycle the same text must be shown
        with warnings.catch_warnings():
            warnings.simplefilter("ignore")
            ok = ctx.guard(("C13", "save"), case, lambda: (doc.save(tmp / "f.numbers"), True)[1])
            if ok is None:
                return
            d2 = ctx.guard(("C13", "reopen"), case, Document, tmp / "f.numbers")
        if d2 is None:
            return
        t2 = d2.sheets[0].tables[0]
        for i, (vj, kind, kw, *prior) in enumerate(cells):
            if texts[i] is None:
                continue
            ctx.ev()
            sub = {"lane": "cells", "cells": [cells[i]]}
            text2 = ctx.guard(("C13", "formatted_value_raised_after_reload", kind), sub, lambda: t2.cell(i, 0).formatted_value)
            if text2 is not None and text2 != texts[i]:
                if gens.from_json(vj) == 0 and text2.replace("-", "").replace("(", "").replace(")", "") == texts[i].replace("-", "").replace("(", "").replace(")", ""):
                    ctx.count("negative_zero_marker_differs_after_reload")
                    continue  # -0.0 loses its sign bit in the file; both texts read as zero
                ctx.fail(("C13", kind, "open_vs_reloaded"), sub, f"{kind} {kw} value {gens.from_json(vj)!r}: open document shows {texts[i]!r}, reloaded file {text2!r}")
        ctx.count("documents")
    finally:
        shutil.rmtree(tmp, ignore_errors=True)


@st.composite
def cell_lists(draw, codes, nmin, nmax):
    n = draw(st.integers(nmin, nmax))
    out = []
    for _ in range(n):
        kind, kw = draw(formats(codes))
        v = draw(values(kind, kw))
        cell = [gens.to_json(v), kind, kw]
        if draw(st.integers(0, 5)) == 0:
            cell.append(list(draw(formats(codes))))
        out.append(cell)
    return out


def tasks(tier, seed):
    t = []
    for k in range(16):
        t.append(("documents", {"n": 8 if tier == "quick" else 60, "nmin": 150, "nmax": 400, "seed": derive_seed(seed, "c13", k)}))
    t.append(("currencies", {}))
    t.append(("bases", {}))
    t.append(("ratings", {}))
    return t


def run_task(ctx, lane, **kw):
    codes = currencies()
    if lane == "documents":
        def body(cells):
            check_document(ctx, {"lane": "cells", "cells": cells})

        run_given(ctx, cell_lists(codes, kw["nmin"], kw["nmax"]), body, kw["n"], kw["seed"], reduce=("cells", 30.0, check_document))
    elif lane == "currencies":
        cells = []
        for code in codes:
            for acc in (False, True):
                for v in (1234.5, -1234.5, 0.0):
                    cells.append([gens.to_json(v), "currency", {"currency_code": code, "use_accounting_style": acc, "show_thousands_separator": True}])
        for i in range(0, len(cells), 400):
            check_document(ctx, {"lane": "cells", "cells": cells[i:i + 400]})
    elif lane == "bases":
        cells = []
        for base in range(2, 37):
            for places in (0, 3, 8):
                for v in (0, 1, -1, 255, -255, 35, 36, 1295, 2**31, -(2**31), 0.3, -0.3, 0.5):
                    kws = [{"base": base, "base_places": places}]
                    if base in (2, 8, 16):
                        kws.append({"base": base, "base_places": places, "base_use_minus_sign": False})
                    for k in kws:
                        cells.append([gens.to_json(v), "base", k])
        for i in range(0, len(cells), 400):
            check_document(ctx, {"lane": "cells", "cells": cells[i:i + 400]})
    elif lane == "ratings":
        check_document(ctx, {"lane": "cells", "cells": [[gens.to_json(v), "rating", {}] for v in [0, 1, 2, 3, 4, 5, 0.4, 0.6, 1.2, 2.9, 3.5, 4.49, 4.999, 2.5]]})
    else:
        raise ValueError(lane)


def check_case(ctx, case):
    check_document(ctx, case)
