"""C06  What is read does not depend on meaning-preserving choices of file layout."""
import shutil
import tempfile
import warnings
from pathlib import Path

from hypothesis import strategies as st

from vf import docgen, fixtures, layout, snapshot
from vf.core import derive_seed, run_given

ID = "C06"
RULE = (
    "Base documents: supported fixtures + documents generated through the editing API. Transformations, applied singly and in "
    "Hypothesis-chosen compositions by vf/layout.py (which re-serialises only the objects it touches and copies every other segment "
    "verbatim): permutation (reverse / rotate / shuffle) of the entries of every TST.TableDataList; re-chunking of every archive; zip "
    "member order and stored/deflated per member; single file <-> package folder (Index.zip + loose files); per-row switch between "
    "byte and 4-byte-unit cell offsets where representable; explicit zero-cell header records added for a subset of rows without one "
    "(in index order and appended); row records of rows whose cells are all plain empty removed from their tile, numrows set to the record count "
    "as Numbers does, explicit cell-less row records added for every row of a tile that has none (in row order, or appended behind the "
    "existing records) and the row records of a tile shuffled (fixtures, generated documents and API-built tables of 257..600 rows with blank rows inside and at the edges of tiles). Oracle: snapshot(Document(T(F))) == snapshot(Document(F)) (names, dimensions, per cell class, "
    "value, formatted value, formula, merge state, bullets, background image) and opening T(F) emits no warning that F does not; for API-generated "
    "documents the written grid must also be read back from T(F) (absolute oracle). Non-trivial: the transformation changed an "
    "object the reader consults (a list with >= 2 entries permuted, a row re-encoded, a header added, an archive re-chunked); "
    "distinct by (document, plan)."
)
ASSUMPTIONS = [
    "the entries of a table data list are a key->value map (the property's own premise)",
    "a transformed file that the library cannot open at all is reported as a violation (it carries the same objects)",
]

SINGLE_PLANS = [
    {"permute_lists": "reverse"}, {"permute_lists": "rotate"}, {"permute_lists": "shuffle"},
    {"rechunk": "small"}, {"rechunk": "boundary"}, {"rechunk": "random", "comp": "literal"},
    {"member_order": "shuffle"}, {"member_order": "reverse", "deflate": "all"}, {"deflate": "some"},
    {"container": "package"}, {"container": "package", "deflate": True},
    {"offsets": "flip"}, {"offsets": "narrow"}, {"offsets": "mixed"},
    {"empty_row_headers": "sorted"}, {"empty_row_headers": "appended"},
    {"drop_empty_rows": "all"},
    {"row_records": "add_sorted"}, {"row_records": "add_appended"}, {"row_records": "shuffle"},
]

plans = st.fixed_dictionaries({}, optional={
    "permute_lists": st.sampled_from(["reverse", "rotate", "shuffle"]),
    "rechunk": st.sampled_from(["small", "boundary", "random"]),
    "comp": st.sampled_from(["literal", "snappy"]),
    "member_order": st.sampled_from(["shuffle", "reverse"]),
    "deflate": st.sampled_from(["all", "some"]),
    "container": st.sampled_from(["package", "file"]),
    "offsets": st.sampled_from(["flip", "narrow", "wide", "mixed"]),
    "empty_row_headers": st.sampled_from(["sorted", "appended"]),
    "drop_empty_rows": st.sampled_from(["some", "all"]),
    "row_records": st.sampled_from(["add_sorted", "add_appended", "shuffle"]),
    "salt": st.integers(0, 10**6),
})


def open_quiet(path):
    from numbers_parser import Document

    with warnings.catch_warnings(record=True) as w:
        warnings.simplefilter("always")
        doc = Document(path)
        snap = snapshot.doc_snapshot(doc, with_image=True)
    return doc, snap, sorted({str(x.message)[:80] for x in w if "unsupported version" in str(x.message) or "can't read" in str(x.message)})


def check_rewrite(ctx, case, src=None, base_snap=None):
    """case: {"fixture": name | "recipe": ..., "plan": {...}}"""
    tmp = Path(tempfile.mkdtemp(prefix="vf_c06_"))
    try:
        if src is None:
            if "fixture" in case:
                src = fixtures.DATA / case["fixture"]
            elif "wide" in case:
                src = tmp / "base.numbers"
                build_wide(case["wide"]).save(src)
            elif "tall" in case:
                src = tmp / "base.numbers"
                build_tall(case["tall"]).save(src)
            else:
                with warnings.catch_warnings():
                    warnings.simplefilter("ignore")
                    docgen.build(case["recipe"]).save(tmp / "base.numbers")
                src = tmp / "base.numbers"
        if base_snap is None:
            res = ctx.guard(("C06", "open_base"), case, open_quiet, src)
            if res is None:
                return
            _, base_snap, base_warn = res
        else:
            base_snap, base_warn = base_snap
        plan = case["plan"]
        # the rewrite is harness code only: a failure here is a harness error (exit 2), never a violation
        path, stats = layout.rewrite(src, tmp, plan)
        ctx.ev()
        opened = ctx.guard(("C06", "open_rewritten", *sorted(k for k in plan if k != "salt")[:3]), case, open_quiet, path)
        if opened is None:
            return
        _, snap, warn = opened
        d = snapshot.diff(base_snap, snap)
        if d:
            keys = sorted(k for k, v in plan.items() if k not in ("salt", "comp") and v)
            ctx.fail(("C06", "reads_differently", *keys[:4]), case, f"{case.get('fixture', 'wide table' if 'wide' in case else 'tall table' if 'tall' in case else 'generated')} under plan {plan}: " + " | ".join(d[:4]))
        if warn != base_warn:
            ctx.fail(("C06", "new_warning"), case, f"rewritten file warns {warn}, original {base_warn}")
        for k, v in stats.items():
            ctx.count(k, v)
        effective = any(stats.get(k) for k in ("lists_permuted", "rows_reencoded", "empty_row_headers_added", "row_records_dropped", "tiles_with_row_records_rearranged", "archives_rechunked", "members_shuffled", "as_package"))
        if effective:
            ctx.nt((case.get("fixture") or case.get("recipe") or repr(case.get("wide") or case.get("tall")), plan))
        else:
            ctx.count("plan_without_effect")
        ctx.count("rewrites")
        ctx.sample({"document": case.get("fixture", "generated"), "plan": plan, "stats": stats}, every=23)
    finally:
        shutil.rmtree(tmp, ignore_errors=True)


def build_wide(spec):
    """A table whose rows hold more than 32 KiB of cell storage (many columns of styled, formatted numbers): the library writes
    them with 4-byte-unit offsets; as byte offsets they still fit the 16-bit field."""
    from numbers_parser import RGB, Document

    doc = Document(num_rows=spec["rows"], num_cols=spec["cols"], num_header_rows=0, num_header_cols=0)
    t = doc.sheets[0].tables[0]
    st_ = doc.add_style(bg_color=RGB(1, 2, 3), bold=True)
    with warnings.catch_warnings():
        warnings.simplefilter("ignore")
        for r in range(spec["rows"]):
            for c in range(spec["cols"]):
                if (r + c) % spec.get("gap", 7) == 0:
                    continue  # some missing cells
                t.write(r, c, r * 1000 + c + 0.5, style=st_)
                t.set_cell_formatting(r, c, "number", decimal_places=2)
    return doc


def build_tall(spec):
    """A table of several tiles in which some rows, also inside the first tile, hold nothing: Numbers keeps no row record for such a
    row, so every later record of the tile, and the tiles after it, must be placed by their stored indices, not by counting records."""
    from numbers_parser import Document

    doc = Document(num_rows=spec["rows"], num_cols=3, num_header_rows=0, num_header_cols=0)
    t = doc.sheets[0].tables[0]
    blank = set(spec["blank"])
    for r in range(spec["rows"]):
        if r in blank:
            continue
        t.write(r, 0, f"ROW{r}")
        t.write(r, 2, r + 0.25)
    return doc


QUICK_FIXTURES = ["issue-43.numbers", "test-issue-75.numbers", "test-1.numbers", "issue-66-collab.numbers", "test-empty-rows.numbers", "test-bullets.numbers", "test-formats.numbers", "issue-14.numbers",
                  "test-new-formulas.numbers", "test-save-1.numbers", "issue-42.numbers", "test-issue-76.numbers", "create-formulas.numbers", "issue-77.numbers"]


def tasks(tier, seed):
    t = []
    names = QUICK_FIXTURES if tier == "quick" else fixtures.SUPPORTED
    big = {"custom-format-stress.numbers", "test-6.numbers", "issue-67.numbers", "duration_112.numbers", "issue-35.numbers"}
    for name in names:
        t.append(("fixture", {"fixture": name, "singles": (name not in big), "n": 3 if tier == "quick" else (6 if name in big else 40), "seed": derive_seed(seed, "c06", name)}))
    t.append(("wide", {"rows": 2, "cols": 1000}))
    t.append(("tall", {"rows": 300, "blank": [0, 7, 8, 200, 255, 256, 290]}))
    if tier != "quick":
        t.append(("wide", {"rows": 3, "cols": 900}))
        t.append(("tall", {"rows": 600, "blank": [3, 255, 257, 300, 511, 512, 599]}))
        t.append(("tall", {"rows": 257, "blank": [100]}))
    for k in range(8 if tier == "quick" else 16):
        t.append(("generated", {"n": 2 if tier == "quick" else 10, "per": 5 if tier == "quick" else 12, "seed": derive_seed(seed, "c06g", k)}))
    return t


def run_task(ctx, lane, **kw):
    from hypothesis import Phase

    if lane == "fixture":
        src = fixtures.DATA / kw["fixture"]
        res = ctx.guard(("C06", "open_base"), {"fixture": kw["fixture"]}, open_quiet, src)
        if res is None:
            return
        base = (res[1], res[2])
        if kw["singles"]:
            for plan in SINGLE_PLANS:
                check_rewrite(ctx, {"lane": "rewrite", "fixture": kw["fixture"], "plan": dict(plan, salt=3)}, src, base)

        def body(plan):
            check_rewrite(ctx, {"lane": "rewrite", "fixture": kw["fixture"], "plan": plan}, src, base)

        run_given(ctx, plans, body, kw["n"], kw["seed"], phases=(Phase.explicit, Phase.generate))
    elif lane == "wide":
        for offsets in ("narrow", "mixed"):
            check_rewrite(ctx, {"lane": "rewrite", "wide": {"rows": kw["rows"], "cols": kw["cols"]}, "plan": {"offsets": offsets, "salt": 1}})
    elif lane == "tall":
        for mode in ("all", "some"):
            check_rewrite(ctx, {"lane": "rewrite", "tall": {"rows": kw["rows"], "blank": kw["blank"]}, "plan": {"drop_empty_rows": mode, "salt": 2}})
        for mode in ("add_appended", "shuffle"):
            check_rewrite(ctx, {"lane": "rewrite", "tall": {"rows": kw["rows"], "blank": kw["blank"]}, "plan": {"row_records": mode, "salt": 2}})
    elif lane == "generated":
        def body(recipe):
            tmp = Path(tempfile.mkdtemp(prefix="vf_c06g_"))
            try:
                with warnings.catch_warnings():
                    warnings.simplefilter("ignore")
                    ok = ctx.guard(("C06", "build_generated"), {"recipe": recipe}, lambda: (docgen.build(recipe).save(tmp / "g.numbers"), True)[1])
                if ok is None:
                    return
                res = ctx.guard(("C06", "open_base"), {"recipe": recipe}, open_quiet, tmp / "g.numbers")
                if res is None:
                    return
                base = (res[1], res[2])
                ctx.count("generated_documents")
                inner_seed = derive_seed(kw["seed"], repr(recipe)[:300])

                def inner(plan):
                    check_rewrite(ctx, {"lane": "rewrite", "recipe": recipe, "plan": plan}, tmp / "g.numbers", base)

                for plan in SINGLE_PLANS[:3] + SINGLE_PLANS[11:12]:
                    inner(dict(plan, salt=5))
                run_given(ctx, plans, inner, kw["per"], inner_seed, phases=(Phase.explicit, Phase.generate))
            finally:
                shutil.rmtree(tmp, ignore_errors=True)

        run_given(ctx, docgen.recipes(max_ops=25), body, kw["n"], kw["seed"], phases=(Phase.explicit, Phase.generate))
    else:
        raise ValueError(lane)


def check_case(ctx, case):
    check_rewrite(ctx, {k: v for k, v in case.items() if k in ("lane", "fixture", "recipe", "plan", "wide", "tall")})
