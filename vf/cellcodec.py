"""Independent v5 cell-record codec written from the published layout (SheetJS IWA notes, which
docs/Numbers.md defers to): 12-byte header (version, type, 4 unused, 2 'extras', 4-byte flags
little endian), then one field per set flag bit in ASCENDING bit order:
   0x1 decimal128 (16 bytes)   0x2 double (8)   0x4 seconds double (8)
   0x8 .. 0x100000: 4-byte little-endian ids."""
import struct
from decimal import Decimal

# (bit, name, size)
FIELDS = [
    (0x1, "d128", 16), (0x2, "double", 8), (0x4, "seconds", 8),
    (0x8, "string_id", 4), (0x10, "rich_id", 4), (0x20, "cell_style_id", 4), (0x40, "text_style_id", 4),
    (0x80, "cond_style_id", 4), (0x100, "cond_rule_style_id", 4), (0x200, "formula_id", 4), (0x400, "control_id", 4),
    (0x800, "formula_error_id", 4), (0x1000, "suggest_id", 4), (0x2000, "num_format_id", 4), (0x4000, "currency_format_id", 4),
    (0x8000, "date_format_id", 4), (0x10000, "duration_format_id", 4), (0x20000, "text_format_id", 4), (0x40000, "bool_format_id", 4),
    (0x80000, "comment_id", 4), (0x100000, "import_warning_id", 4),
]
ALL_BITS = sum(b for b, _, _ in FIELDS)
ID_FIELDS = [(b, n) for b, n, s in FIELDS if s == 4]
BIAS = 0x1820


def pack_d128(dec: Decimal) -> bytes:
    sign, digits, exp = dec.as_tuple()
    mant = int("".join(map(str, digits)))
    assert mant < (1 << 113)
    e = exp + BIAS
    raw = mant | (e << 113) | (sign << 127)
    return raw.to_bytes(16, "little")


def unpack_d128(b: bytes) -> Decimal:
    raw = int.from_bytes(b, "little")
    sign = raw >> 127
    e = ((raw >> 113) & 0x3FFF) - BIAS
    mant = raw & ((1 << 113) - 1)
    return Decimal((sign, tuple(int(ch) for ch in str(mant)), e))


def encode(cell_type: int, fields: dict, extras: int = 0) -> bytes:
    flags = 0
    body = b""
    for bit, name, size in FIELDS:
        if name in fields:
            flags |= bit
            v = fields[name]
            if name == "d128":
                body += pack_d128(v)
            elif size == 8:
                body += struct.pack("<d", v)
            else:
                body += struct.pack("<i", v)
    head = bytes([5, cell_type, 0, 0, 0, 0]) + struct.pack("<H", extras) + struct.pack("<I", flags)
    return head + body


def decode(buf: bytes):
    """-> (cell_type, extras, flags, fields, consumed_length)"""
    assert buf[0] == 5
    cell_type = buf[1]
    extras = struct.unpack("<H", buf[6:8])[0]
    flags = struct.unpack("<I", buf[8:12])[0]
    off = 12
    fields = {}
    for bit, name, size in FIELDS:
        if flags & bit:
            raw = bytes(buf[off:off + size])
            if len(raw) != size:
                raise ValueError(f"record too short for field {name}")
            if name == "d128":
                fields[name] = unpack_d128(raw)
            elif size == 8:
                fields[name] = struct.unpack("<d", raw)[0]
            else:
                fields[name] = struct.unpack("<i", raw)[0]
            off += size
    return cell_type, extras, flags, fields, off


def record_length(flags: int) -> int:
    return 12 + sum(size for bit, _, size in FIELDS if flags & bit)
