"""A stand-in for the model object that Cell._to_buffer / Cell._from_storage consult, so that
cell records can be encoded and decoded without a document."""


class _NoMerge:
    def get(self, _):
        return False


class StubModel:
    def __init__(self):
        self.strings = {}
        self.by_string = {}
        self._nomerge = _NoMerge()

    def table_string(self, table_id, key):
        return self.strings.get(key, f"<string {key}>")

    def table_string_key(self, table_id, value):
        if value not in self.by_string:
            key = len(self.by_string) + 1
            self.by_string[value] = key
            self.strings[key] = value
        return self.by_string[value]

    def table_rich_text(self, table_id, key):
        return {"text": f"<rich {key}>", "bullets": [], "hyperlinks": [], "bulleted": False, "bullet_chars": []}

    def merge_cells(self, table_id):
        return self._nomerge

    def table_name(self, table_id):
        return "Stub"
