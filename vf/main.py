import importlib
import os
import sys


def main(argv):
    if len(argv) < 2:
        print("usage: check <ID> <quick|thorough> | check <ID> --replay <file>", file=sys.stderr)
        return 2
    prop = argv[0].upper()
    from vf import core

    core.use_repo()
    try:
        mod = importlib.import_module(f"props.{prop.lower()}")
    except Exception:
        import traceback

        traceback.print_exc()
        return 2
    if argv[1] == "--replay":
        return core.replay_file(mod, argv[2])
    tier = argv[1]
    if tier not in ("quick", "thorough"):
        print("tier must be quick or thorough", file=sys.stderr)
        return 2
    seed = int(os.environ.get("VERIF_SEED", "1"))
    try:
        return core.run_property(mod, tier, seed)
    except Exception:
        import traceback

        traceback.print_exc()
        return 2


if __name__ == "__main__":
    sys.exit(main(sys.argv[1:]))
