"""Meaning-preserving rewrites of a .numbers document (C06), built on the independent container codec.

Only the objects a transformation touches are re-serialised (with the generated protobuf classes); every
other segment is copied verbatim.  All choices come from a `plan` dict so that a rewrite is replayable."""
import io
import random
import zipfile
from array import array
from pathlib import Path

from vf import iwa, pkg


def _types():
    from numbers_parser.generated import TSTArchives_pb2 as TST
    from numbers_parser.generated.mapping import NAME_ID_MAP

    return {
        NAME_ID_MAP["TST.TableDataList"]: ("datalist", TST.TableDataList),
        NAME_ID_MAP["TST.Tile"]: ("tile", TST.Tile),
        NAME_ID_MAP["TST.HeaderStorageBucket"]: ("bucket", TST.HeaderStorageBucket),
        NAME_ID_MAP["TST.TableModelArchive"]: ("table", TST.TableModelArchive),
    }


def rebuild_header(header, new_lengths):
    """Re-encode an ArchiveInfo with new message lengths (everything else byte-identical)."""
    out = bytearray()
    k = 0
    for fno, wt, val, raw in iwa.wire_fields(header):
        if fno == 2 and wt == 2:
            mi = bytearray()
            for f2, w2, v2, raw2 in iwa.wire_fields(val):
                if f2 == 3 and w2 == 0:
                    mi += b"\x18" + iwa.write_varint(new_lengths[k])
                else:
                    mi += raw2
            out += b"\x12" + iwa.write_varint(len(mi)) + bytes(mi)
            k += 1
        else:
            out += raw
    return bytes(out)


def rewrite_stream(S, edit):
    """edit(kind, message_object, identifier) -> True if it changed the message. Returns (new_stream, n_changed)."""
    types = _types()
    out = bytearray()
    changed = 0
    for seg in iwa.parse_segments(S):
        msgs = list(seg["messages"])
        touched = False
        if seg["infos"] and seg["infos"][0][0] in types:
            kind, cls = types[seg["infos"][0][0]]
            obj = cls.FromString(msgs[0])
            if edit(kind, obj, seg["identifier"]):
                msgs[0] = obj.SerializeToString()
                touched = True
                changed += 1
        if touched:
            header = rebuild_header(seg["header"], [len(m) for m in msgs])
            out += iwa.write_varint(len(header)) + header + b"".join(msgs)
        else:
            out += seg["header_len_varint"] + seg["header"] + b"".join(msgs)
    return bytes(out), changed


# ------------------------------------------------------------------------------------------
# object-level transformations

def table_facts(members):
    """identifier -> facts needed by the edits: which buckets are row-header buckets and of which table (row count)."""
    types = _types()
    tables = {}
    for name, data in members:
        if not name.endswith(".iwa"):
            continue
        try:
            S, _, _ = iwa.stream_of(data)
            segs = iwa.parse_segments(S)
        except (iwa.FormatError, IndexError):
            continue  # an opaque member with an .iwa name (issue-32 has one)
        for seg in segs:
            if seg["infos"] and seg["infos"][0][0] in types and types[seg["infos"][0][0]][0] == "table":
                obj = types[seg["infos"][0][0]][1].FromString(seg["messages"][0])
                bds = obj.base_data_store
                tables[seg["identifier"]] = {
                    "rows": obj.number_of_rows, "cols": obj.number_of_columns,
                    "row_buckets": [b.identifier for b in bds.rowHeaders.buckets],
                    "tiles": [t.tile.identifier for t in bds.tiles.tiles],
                    "tile_pos": {t.tile.identifier: t.tileid for t in bds.tiles.tiles},
                    "tile_size": bds.tiles.tile_size or 256,
                }
    return tables


def make_edit(plan, facts, stats):
    rnd = random.Random(plan.get("salt", 0))
    row_bucket_rows = {}
    for t in facts.values():
        for b in t["row_buckets"]:
            row_bucket_rows[b] = t["rows"]

    tile_rows = {}
    for t in facts.values():
        for tid, pos in t.get("tile_pos", {}).items():
            tile_rows[tid] = max(0, min(t["tile_size"], t["rows"] - pos * t["tile_size"]))

    def edit(kind, obj, ident):
        ch = False
        if kind == "tile" and plan.get("row_records") and obj.rowInfos:
            # the order of the row records inside a tile carries no meaning (each declares its row), and a row without content may
            # have an explicit record with no cells: records are shuffled, or added for the rows that have none - in row order, or
            # appended behind the existing ones
            mode = plan["row_records"]
            infos = [type(ri).FromString(ri.SerializeToString()) for ri in obj.rowInfos]
            before = [ri.tile_row_index for ri in infos]
            if mode in ("add_sorted", "add_appended") and ident in tile_rows:
                have = set(before)
                template = infos[0]
                for r in range(tile_rows[ident]):
                    if r in have:
                        continue
                    ri = type(template)()
                    ri.tile_row_index = r
                    ri.cell_count = 0
                    ri.cell_storage_buffer_pre_bnc = b""
                    ri.cell_offsets_pre_bnc = b""
                    if template.HasField("storage_version"):
                        ri.storage_version = template.storage_version
                    ri.cell_storage_buffer = b""
                    ri.cell_offsets = b"\xff\xff" * (len(template.cell_offsets) // 2)
                    ri.has_wide_offsets = template.has_wide_offsets
                    infos.append(ri)
                    stats["empty_row_records_added"] = stats.get("empty_row_records_added", 0) + 1
                if mode == "add_sorted":
                    infos.sort(key=lambda ri: ri.tile_row_index)
            elif mode == "shuffle":
                rnd.shuffle(infos)
            after = [ri.tile_row_index for ri in infos]
            if after != before:
                del obj.rowInfos[:]
                for ri in infos:
                    obj.rowInfos.add().CopyFrom(ri)
                obj.numrows = len(infos)
                if after != sorted(after):
                    stats["tiles_with_records_out_of_row_order"] = stats.get("tiles_with_records_out_of_row_order", 0) + 1
                stats["tiles_with_row_records_rearranged"] = stats.get("tiles_with_row_records_rearranged", 0) + 1
                ch = True
        if kind == "datalist" and plan.get("permute_lists") and len(obj.entries) >= 2:
            entries = [type(e).FromString(e.SerializeToString()) for e in obj.entries]
            order = list(range(len(entries)))
            r = random.Random((plan.get("salt", 0), ident).__hash__())
            mode = plan["permute_lists"]
            if mode == "reverse":
                order.reverse()
            elif mode == "rotate":
                order = order[1:] + order[:1]
            else:
                r.shuffle(order)
            if order != list(range(len(entries))):
                del obj.entries[:]
                for i in order:
                    obj.entries.add().CopyFrom(entries[i])
                stats["lists_permuted"] = stats.get("lists_permuted", 0) + 1
                ch = True
        if kind == "tile" and plan.get("offsets"):
            for ri in obj.rowInfos:
                if not ri.cell_offsets:
                    continue
                offs = array("H")   # unsigned: 0xFFFF alone marks a missing cell
                offs.frombytes(ri.cell_offsets)
                want_wide = {"wide": True, "narrow": False, "flip": not ri.has_wide_offsets, "mixed": rnd.random() < 0.5}[plan["offsets"]]
                if want_wide == ri.has_wide_offsets:
                    continue
                if ri.has_wide_offsets:  # wide -> narrow: byte offsets must fit 16 bits below the marker
                    new = [o * 4 if o != 0xFFFF else o for o in offs]
                    if any(o != 0xFFFF and o > 0xFFFE for o in new):
                        continue
                    if any(o != 0xFFFF and o > 0x7FFF for o in new):
                        stats["rows_with_offsets_above_32k"] = stats.get("rows_with_offsets_above_32k", 0) + 1
                else:  # narrow -> wide: offsets must be multiples of four
                    if any(o != 0xFFFF and o % 4 for o in offs):
                        continue
                    new = [o // 4 if o != 0xFFFF else o for o in offs]
                ri.cell_offsets = array("H", new).tobytes()
                ri.has_wide_offsets = want_wide
                stats["rows_reencoded"] = stats.get("rows_reencoded", 0) + 1
                ch = True
        if kind == "tile" and plan.get("drop_empty_rows") and len(obj.rowInfos) >= 2:
            # Numbers keeps no row record for a row without content (13 tiles of the shipped fixtures have such gaps; their numrows
            # is the number of records): records whose cells are all plain empty ones (generic type, no flag bit) are removed
            plain_rows = []
            for k, ri in enumerate(obj.rowInfos):
                plain = True
                if ri.cell_count:
                    offs = array("H")
                    offs.frombytes(ri.cell_offsets)
                    unit = 4 if ri.has_wide_offsets else 1
                    for o in offs:
                        if o == 0xFFFF:
                            continue
                        rec = ri.cell_storage_buffer[o * unit:o * unit + 12]
                        if len(rec) < 12 or rec[1] != 0 or rec[8:12] != b"\0\0\0\0":
                            plain = False
                            break
                if plain:
                    plain_rows.append(k)
            chosen = {k for k in plain_rows if plan["drop_empty_rows"] == "all" or rnd.random() < 0.6}
            if len(chosen) == len(obj.rowInfos):
                chosen.discard(min(chosen))
            keep = [type(ri).FromString(ri.SerializeToString()) for k, ri in enumerate(obj.rowInfos) if k not in chosen]
            dropped = len(chosen)
            if dropped and keep:
                del obj.rowInfos[:]
                for ri in keep:
                    obj.rowInfos.add().CopyFrom(ri)
                obj.numrows = len(keep)
                stats["row_records_dropped"] = stats.get("row_records_dropped", 0) + dropped
                if obj.numrows and max(r.tile_row_index for r in keep) + 1 > len(keep):
                    stats["tiles_with_row_gaps"] = stats.get("tiles_with_row_gaps", 0) + 1
                ch = True
        if kind == "bucket" and plan.get("empty_row_headers") and ident in row_bucket_rows:
            have = {h.index for h in obj.headers}
            missing = [r for r in range(row_bucket_rows[ident]) if r not in have]
            if missing:
                pick = [r for r in missing if rnd.random() < 0.7] or missing[:1]
                mode = plan["empty_row_headers"]
                for r in pick:
                    h = obj.headers.add()
                    h.index = r
                    h.numberOfCells = 0
                    h.size = 0.0
                    h.hidingState = 0
                if mode == "sorted":
                    hs = sorted([type(h).FromString(h.SerializeToString()) for h in obj.headers], key=lambda h: h.index)
                    del obj.headers[:]
                    for h in hs:
                        obj.headers.add().CopyFrom(h)
                stats["empty_row_headers_added"] = stats.get("empty_row_headers_added", 0) + len(pick)
                ch = True
        return ch

    return edit


# ------------------------------------------------------------------------------------------
# whole-document rewrite

def rewrite(src, dst_dir, plan):
    """Write a rewritten copy of document `src` under dst_dir; returns (path, stats)."""
    import snappy

    members = pkg.members(src)
    stats = {}
    facts = table_facts(members) if (plan.get("empty_row_headers") or plan.get("row_records")) else {}
    edit = make_edit(plan, facts, stats)
    rnd = random.Random(plan.get("salt", 0) + 17)
    out = []
    for name, data in members:
        if name.endswith(".iwa"):
            try:
                S, _, _ = iwa.stream_of(data, allow_stored=False)
                iwa.parse_segments(S)
            except (iwa.FormatError, IndexError):
                out.append((name, data))
                continue
            if plan.get("permute_lists") or plan.get("offsets") or plan.get("empty_row_headers") or plan.get("drop_empty_rows") or plan.get("row_records"):
                S, n = rewrite_stream(S, edit)
            if plan.get("rechunk"):
                mode = plan["rechunk"]
                if mode == "small":
                    step = rnd.choice([100, 4096, 1000, 17])
                    cuts = list(range(step, len(S), step))[:3000]
                elif mode == "boundary":
                    cuts = [c for c in (1, 65535, 65537, 131071) if c < len(S)]
                else:
                    cuts = sorted(rnd.sample(range(1, max(2, len(S))), min(5, max(0, len(S) - 1))))
                # no piece larger than 64 KiB
                full = sorted(set(cuts))
                bounds = [0] + full + [len(S)]
                for b1, b2 in zip(bounds, bounds[1:]):
                    p = b1 + 65536
                    while p < b2:
                        full.append(p)
                        p += 65536
                data2 = iwa.build_file(S, sorted(set(full)), snappy.compress if plan.get("comp") != "literal" else None)
                stats["archives_rechunked"] = stats.get("archives_rechunked", 0) + 1
            else:
                data2 = iwa.build_file(S, None, snappy.compress)
            out.append((name, data2))
        else:
            out.append((name, data))
    if plan.get("member_order") == "shuffle":
        rnd.shuffle(out)
        stats["members_shuffled"] = 1
    elif plan.get("member_order") == "reverse":
        out.reverse()
        stats["members_shuffled"] = 1
    dst_dir = Path(dst_dir)
    if plan.get("container") == "package":
        folder = dst_dir / "rewritten.numbers"
        folder.mkdir()
        # a zip that wraps a package folder (issue-32: every name starts with "mac.numbers/") becomes that folder
        tops = {n.split("/", 1)[0] for n, _ in out if not n.startswith("Index/")}
        if len(tops) == 1 and next(iter(tops)).endswith(".numbers"):
            top = next(iter(tops)) + "/"
            out = [(n[len(top):] if n.startswith(top) else n, d) for n, d in out]
        out = [(n, d) for n, d in out if n and not n.endswith("/")]
        buf = io.BytesIO()
        with zipfile.ZipFile(buf, "w") as z:
            for n, d in out:
                if n.startswith("Index/"):
                    z.writestr(zipfile.ZipInfo(n), d, compress_type=zipfile.ZIP_DEFLATED if plan.get("deflate") else zipfile.ZIP_STORED)
        (folder / "Index.zip").write_bytes(buf.getvalue())
        for n, d in out:
            if not n.startswith("Index/"):
                p = folder / n
                p.parent.mkdir(parents=True, exist_ok=True)
                p.write_bytes(d)
        stats["as_package"] = 1
        return folder, stats
    path = dst_dir / "rewritten.numbers"
    with zipfile.ZipFile(path, "w") as z:
        for i, (n, d) in enumerate(out):
            method = zipfile.ZIP_DEFLATED if (plan.get("deflate") == "all" or (plan.get("deflate") == "some" and i % 2)) else zipfile.ZIP_STORED
            z.writestr(zipfile.ZipInfo(n), d, compress_type=method)
    return path, stats


# ------------------------------------------------------------------------------------------
# several tiles in one archive (the layout of issue-17: Index/Tables/Tile.iwa holds the tile of a table and of its summary model)

def colocate_tiles(src, dst):
    """Write a copy of document `src` in which every Index/Tables/Tile*.iwa archive is folded into one of them; the components of the
    archives that went away keep their identifier and lose their locator, as in the shipped file laid out that way.
    Returns the number of tile archives folded away (0: nothing to do, no file written)."""
    from numbers_parser.generated import TSPArchiveMessages_pb2 as TSP

    members = pkg.members(src)
    tiles = sorted(n for n, _ in members if n.startswith("Index/Tables/Tile") and n.endswith(".iwa"))
    if len(tiles) < 2:
        return 0
    keep, fold = tiles[-1], tiles[:-1]
    data = dict(members)
    stream, _, _ = iwa.stream_of(data[keep], allow_stored=False)
    moved = set()
    for n in fold:
        s2, _, _ = iwa.stream_of(data[n], allow_stored=False)
        for seg in iwa.parse_segments(s2):
            moved.add(seg["identifier"])
        stream += s2
    out = []
    for n, d in members:
        if n in fold:
            continue
        if n == keep:
            d = iwa.build_file(stream)
        elif n == "Index/Metadata.iwa":
            ms, _, _ = iwa.stream_of(d, allow_stored=False)
            new = bytearray()
            for seg in iwa.parse_segments(ms):
                msgs = list(seg["messages"])
                if seg["identifier"] == 2:
                    pm = TSP.PackageMetadata.FromString(msgs[0])
                    for c in pm.components:
                        if c.identifier in moved:
                            c.locator = ""
                    msgs[0] = pm.SerializeToString()
                    header = rebuild_header(seg["header"], [len(m) for m in msgs])
                    new += iwa.write_varint(len(header)) + header + b"".join(msgs)
                else:
                    new += seg["header_len_varint"] + seg["header"] + b"".join(msgs)
            d = iwa.build_file(bytes(new))
        out.append((n, d))
    pkg.write_zip(dst, out)
    return len(fold)
