"""Shared support for history (operation-sequence) properties.

An `Exec` subclass owns the real objects and the reference model.  Every operation is a method
`op_<name>(**args)` taking only JSON-able, already-resolved arguments; `apply()` logs the op and runs
it, so that a failing history is exactly `ex.log` and can be replayed without Hypothesis."""
import shutil
import tempfile
from pathlib import Path

from vf.core import Violation, innermost_lib_frame


class _Abort(Exception):
    """History ended early because a *known* finding was hit (state after it is not trusted)."""


class Exec:
    PROP = "C??"

    def __init__(self, ctx):
        self.ctx = ctx
        self.log = []
        self._tmp = None

    # -- temp files
    def tmpdir(self):
        if self._tmp is None:
            self._tmp = Path(tempfile.mkdtemp(prefix="vf_"))
        return self._tmp

    def close(self):
        if self._tmp is not None:
            shutil.rmtree(self._tmp, ignore_errors=True)
            self._tmp = None

    # -- ops
    def apply(self, _op, **args):
        name = _op
        self.log.append({"op": name, **args})
        try:
            return getattr(self, "op_" + name)(**args)
        except (Violation, _Abort):
            raise
        except Exception as e:
            where = innermost_lib_frame(e)
            self.fail(("exception", name, type(e).__name__, where), f"{type(e).__name__}: {e} at {where} during {name}")
            raise _Abort() from None

    def case(self):
        return {"lane": "history", "ops": list(self.log)}

    def fail(self, sig, msg):
        self.ctx.fail((self.PROP,) + tuple(sig), self.case(), msg)
        # a known finding: the history may be in an undefined state afterwards -> stop this history
        raise _Abort()

    def replay(self, ops):
        try:
            for op in ops:
                op = dict(op)
                name = op.pop("op")
                self.apply(name, **op)
            self.finish()
        except _Abort:
            pass
        finally:
            self.close()

    def finish(self):
        pass



def minimize_history(ctx, exec_factory, violation, budget_s=40.0):
    """Greedy delta-debugging over the op log under a wall-clock budget (the budget only bounds
    how small the replay gets, never whether a violation is reported)."""
    import time

    from vf.core import Ctx

    sig = list(violation.sig)
    ops = list(violation.case["ops"])
    t0 = time.time()

    def fails(cand):
        c = Ctx(ctx.prop_id, ctx.tier, ctx.seed, findings=ctx.findings)
        try:
            exec_factory(c).replay(cand)
        except Violation as v2:
            return list(v2.sig) == sig
        except Exception:
            return False
        return False

    from vf.shrink import ddmin_list

    ops = ddmin_list(ops, fails, budget_s, keep_last=True)
    violation.case = {**violation.case, "ops": ops}
    return violation
