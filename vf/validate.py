"""Independent structural validator for a saved package (C07).

Decodes every archive with the independent container codec (vf/iwa.py) and the generated message classes,
then checks referential closure, identifier discipline, the package inventory and per-table tile geometry."""
from array import array

from vf import cellcodec, iwa, pkg

PACKAGE_ID = 2


def _registry():
    from numbers_parser.generated.mapping import ID_NAME_MAP

    return ID_NAME_MAP


def load(path):
    """-> dict(objects={id: (type_id, message, file, object_references)}, files={name: [ids]}, members=[names])"""
    reg = _registry()
    objects, files, raw = {}, {}, {}
    dup = []
    members = pkg.members(path)
    for name, data in members:
        if not name.endswith(".iwa"):
            continue
        if len(data) >= 4 and data[0] != 0:
            # not an IWA container (issue-32 ships an OperationStorage.iwa that is something else); the library passes
            # such members through as opaque files
            continue
        S, sizes, stored = iwa.stream_of(data, allow_stored=False)
        files[name] = []
        for seg in iwa.parse_segments(S):
            ident = seg["identifier"]
            tid = seg["infos"][0][0] if seg["infos"] else None
            cls = reg.get(tid)
            msg = cls.FromString(seg["messages"][0]) if cls is not None and hasattr(cls, "FromString") else None
            refs = []
            _, infos, _ = iwa.parse_archive_info(seg["header"])
            for mi in infos:
                for fno, wt, val, _ in iwa.wire_fields(mi["raw"]):
                    if fno == 5:
                        if wt == 2:
                            pos = 0
                            while pos < len(val):
                                v, pos = iwa.read_varint(val, pos)
                                refs.append(v)
                        elif wt == 0:
                            refs.append(val)
            if ident in objects:
                dup.append(ident)
            objects[ident] = (tid, msg, name, refs)
            raw[ident] = seg["messages"][0]
            files[name].append(ident)
    return {"objects": objects, "files": files, "members": [n for n, _ in members], "raw": raw, "duplicates": dup}


def references(msg, acc=None):
    """identifiers of every TSP.Reference reachable inside a message (descriptor walk incl. extensions)"""
    acc = [] if acc is None else acc
    if msg is None:
        return acc
    for fd, val in msg.ListFields():
        if fd.message_type is None:
            continue
        items = val if fd.is_repeated else [val]
        for it in items:
            if fd.message_type.full_name == "TSP.Reference":
                acc.append(it.identifier)
            else:
                references(it, acc)
    return acc


def unresolved(pkgdata, only=None):
    objs = pkgdata["objects"]
    out = {}
    for ident, (tid, msg, name, hdr_refs) in objs.items():
        if only is not None and ident not in only:
            continue
        for r in references(msg) + list(hdr_refs):
            if r != 0 and r not in objs:
                out.setdefault(r, []).append(ident)
    return out


class Problem(Exception):
    def __init__(self, kind, msg):
        super().__init__(msg)
        self.kind = kind


def check_package(saved, source=None):
    """Returns a list of (kind, message) problems; `source` is the loaded source package or None (new document)."""
    problems = []
    objs = saved["objects"]
    src_objs = source["objects"] if source else {}
    src_raw = source["raw"] if source else {}
    if saved["duplicates"]:
        problems.append(("duplicate_identifier", f"identifiers stored twice: {saved['duplicates'][:5]}"))
    new_ids = [i for i in objs if i not in src_objs]
    changed = [i for i in objs if i in src_objs and saved["raw"][i] != src_raw[i]]
    # (2) referential closure of new / rewritten objects, and no new dangling targets overall
    dangling = unresolved(saved, set(new_ids) | set(changed))
    base_dangling = set(unresolved(source)) if source else set()
    for target, holders in dangling.items():
        if target not in base_dangling:
            h = holders[0]
            problems.append(("dangling_reference", f"object {h} ({type(objs[h][1]).__name__}, {'new' if h in new_ids else 'rewritten'}) references {target}, which is not in the package"))
    extra = set(unresolved(saved)) - base_dangling
    for target in sorted(extra - set(dangling))[:3]:
        problems.append(("dangling_reference_new_overall", f"reference to {target} is unresolved in the saved package but was not in the source"))
    # (3) identifiers
    pm = objs.get(PACKAGE_ID)
    if pm is None or pm[1] is None:
        problems.append(("no_package_metadata", "object 2 (PackageMetadata) missing"))
        return problems
    last = pm[1].last_object_identifier
    too_high = [i for i in new_ids if i > last]
    if too_high:
        problems.append(("identifier_above_high_water_mark", f"new object ids {sorted(too_high)[:5]} exceed last_object_identifier {last}"))
    # (4) inventory
    comps = {}
    for c in pm[1].components:
        for loc in {c.locator, c.preferred_locator}:
            if loc:
                comps.setdefault(f"Index/{loc}.iwa", []).append(c.identifier)
    src_files = set(source["files"]) if source else None
    for name, ids in saved["files"].items():
        if src_files is not None and name in src_files:
            continue
        if src_files is None and name not in comps:
            # new document: every archive of the template is already listed; only report files the save added
            pass
        if name not in comps:
            if src_files is not None:
                problems.append(("archive_not_in_metadata", f"archive member {name} was added by the save but no ComponentInfo names it"))
            continue
        if not any(i in ids for i in comps[name]):
            problems.append(("component_identifier_not_in_file", f"ComponentInfo for {name} names object(s) {comps[name]}, the file holds {ids[:5]}"))
    # (5) tables
    touched = set(new_ids) | set(changed)
    for ident, (tid, msg, name, _r) in objs.items():
        if type(msg).__name__ == "TableModelArchive" and ident in touched:
            problems.extend(check_table(objs, ident, msg))
    return problems


def check_table(objs, ident, tm):
    out = []
    rows, cols = tm.number_of_rows, tm.number_of_columns
    bds = tm.base_data_store
    tile_size = bds.tiles.tile_size or 256
    seen_rows = {}
    total = 0
    for tref in bds.tiles.tiles:
        t = objs.get(tref.tile.identifier)
        if t is None or t[1] is None:
            out.append(("tile_missing", f"table {ident}: tile {tref.tile.identifier} not in package"))
            continue
        tile = t[1]
        total += tile.numrows
        if tile.numrows == 0 and rows > 0:
            out.append(("empty_tile", f"table {ident}: tile {tref.tileid} (object {tref.tile.identifier}) accounts for no row of the table's {rows}"))
        if len(tile.rowInfos) != tile.numrows and tile.numrows:
            # numrows counts the row records of the tile (all 327 tiles of the shipped fixtures, the 13 with gaps included)
            out.append(("tile_rowinfo_count", f"table {ident}: tile {tref.tileid} declares {tile.numrows} rows but holds {len(tile.rowInfos)} row records"))
        for ri in tile.rowInfos:
            row = tref.tileid * tile_size + ri.tile_row_index
            if ri.tile_row_index >= tile_size:
                out.append(("row_index_outside_tile", f"table {ident}: row record index {ri.tile_row_index} >= tile size {tile_size}"))
            if row in seen_rows:
                out.append(("row_stored_twice", f"table {ident}: row {row} has two storage records"))
            seen_rows[row] = True
            if row >= rows:
                out.append(("row_beyond_table", f"table {ident}: storage record for row {row}, table has {rows} rows"))
            out.extend(check_row(ident, row, ri, cols))
    if bds.tiles.tiles and total != rows:
        out.append(("tile_rows_sum", f"table {ident}: tiles declare {total} rows in total, table has {rows}"))
    # header buckets
    for label, buckets, n in (("row", [b.identifier for b in bds.rowHeaders.buckets], rows), ("column", [bds.columnHeaders.identifier], cols)):
        idx = []
        for b in buckets:
            o = objs.get(b)
            if o is None or o[1] is None:
                out.append(("header_bucket_missing", f"table {ident}: {label} header bucket {b} not in package"))
                continue
            idx += [h.index for h in o[1].headers]
        if len(idx) != len(set(idx)):
            out.append(("header_index_twice", f"table {ident}: a {label} header index is listed twice"))
        if any(i >= n for i in idx):
            out.append(("header_index_beyond_table", f"table {ident}: {label} header index {max(idx)} >= {n}"))
    # merge map
    if bds.merge_region_map.identifier:
        mm = objs.get(bds.merge_region_map.identifier)
        if mm is not None and mm[1] is not None:
            rects = []
            for cr in mm[1].cell_range:
                c0, r0 = cr.origin.packedData >> 16, cr.origin.packedData & 0xFFFF
                w, h = cr.size.packedData >> 16, cr.size.packedData & 0xFFFF
                rects.append((r0, c0, r0 + h - 1, c0 + w - 1))
                if r0 + h > rows or c0 + w > cols or h < 1 or w < 1:
                    out.append(("merge_outside_table", f"table {ident}: merged rectangle {(r0, c0, r0 + h - 1, c0 + w - 1)} outside {rows}x{cols}"))
            for i in range(len(rects)):
                for j in range(i + 1, len(rects)):
                    a, b = rects[i], rects[j]
                    if not (a[2] < b[0] or b[2] < a[0] or a[3] < b[1] or b[3] < a[1]):
                        out.append(("merge_overlap", f"table {ident}: merged rectangles {a} and {b} overlap"))
    return out


def check_row(ident, row, ri, cols):
    out = []
    buf = ri.cell_storage_buffer
    offs = array("h")
    offs.frombytes(ri.cell_offsets)
    offs = list(offs)
    if len(offs) < cols:
        out.append(("offsets_short", f"table {ident} row {row}: {len(offs)} offsets for {cols} columns"))
    stored = [(c, o * 4 if ri.has_wide_offsets else o) for c, o in enumerate(offs) if o >= 0]
    if any(c >= cols for c, _ in stored):
        out.append(("cell_beyond_columns", f"table {ident} row {row}: a cell is stored at column >= {cols}"))
    prev_end = 0
    prev = -1
    for c, o in stored:
        if o % 4:
            out.append(("offset_unaligned", f"table {ident} row {row} col {c}: offset {o} is not 4-byte aligned"))
        if o <= prev:
            out.append(("offsets_not_increasing", f"table {ident} row {row} col {c}: offset {o} after {prev}"))
        if o + 12 > len(buf):
            out.append(("offset_outside_buffer", f"table {ident} row {row} col {c}: offset {o}, buffer has {len(buf)} bytes"))
            break
        if o < prev_end:
            out.append(("records_overlap", f"table {ident} row {row} col {c}: record at {o} overlaps the previous one ending at {prev_end}"))
        flags = int.from_bytes(buf[o + 8:o + 12], "little")
        ln = cellcodec.record_length(flags)
        if buf[o] != 5:
            out.append(("record_version", f"table {ident} row {row} col {c}: record version {buf[o]}"))
        if o + ln > len(buf):
            out.append(("record_outside_buffer", f"table {ident} row {row} col {c}: record of {ln} bytes at {o} exceeds the buffer ({len(buf)})"))
        prev_end = o + ln
        prev = o
    if ri.cell_count != len(stored):
        out.append(("cell_count", f"table {ident} row {row}: cell_count {ri.cell_count}, {len(stored)} cells stored"))
    return out
