"""Framework core: case contexts, violations, known findings, sharded runner, evidence.

Every property module (props/cXX.py) exposes

    ID            "C10"
    RULE          text: how cases are generated and what makes one non-trivial / distinct
    ASSUMPTIONS   list of strings
    def tasks(tier, seed) -> list[(lane_name, kwargs)]      # picklable work items
    def run_task(ctx, lane_name, **kwargs)                  # executes one item, reports into ctx
    def check_case(ctx, case)                               # re-executes one stored case (replay / regress)

A lane reports through `ctx`:
    ctx.ev(n)            oracle evaluations actually executed
    ctx.nt(key)          one non-trivial case, distinct by `key` (hashed)
    ctx.nt_enum(n)       n non-trivial cases that are pairwise distinct by construction (enumeration)
    ctx.sample(obj)      keep a few written-out cases
    ctx.count(label,n)   generator distribution counters
    ctx.fail(sig, case, msg)   oracle failure: known finding -> counted, search continues;
                               otherwise raises Violation (Hypothesis shrinks it)
"""
from __future__ import annotations

import hashlib
import json
import os
import sys
import time
import traceback
from concurrent.futures import ProcessPoolExecutor, as_completed
from multiprocessing import get_context
from pathlib import Path

VERIF = Path(__file__).resolve().parent.parent
REPO = Path(os.environ.get("VERIF_REPO", "/repo"))
FIXTURES = Path("/repo/tests/data")  # fixtures are data, always read from the real checkout


def quiet_warnings():
    """The library's dependency `sigfig` calls warnings.resetwarnings(), which wipes any filter a caller
    installs; unrecorded warnings are therefore silenced at the display hook instead of by filter."""
    import warnings

    warnings.showwarning = lambda *a, **k: None


def use_repo():
    """Make `import numbers_parser` resolve to the working tree under test."""
    quiet_warnings()
    src = str(REPO / "src")
    if sys.path[0] != src:
        sys.path.insert(0, src)
    os.environ.setdefault("NUMBERS_PARSER_VERIF", "1")


class Violation(Exception):
    def __init__(self, sig, case, msg):
        super().__init__(f"{sig}: {msg}")
        self.sig = list(sig)
        self.case = case
        self.msg = msg


def innermost_lib_frame(exc):
    tb = exc.__traceback__
    where = "?"
    while tb is not None:
        fn = tb.tb_frame.f_code.co_filename
        if "numbers_parser" in fn:
            where = f"{Path(fn).name}:{tb.tb_frame.f_code.co_name}"
        tb = tb.tb_next
    return where


class HarnessError(Exception):
    pass


def jhash(obj) -> str:
    return hashlib.blake2b(
        json.dumps(obj, sort_keys=True, default=repr, ensure_ascii=True).encode(), digest_size=8
    ).hexdigest()


# ----------------------------------------------------------------------------------------
# known findings


def load_findings(prop_id):
    path = VERIF / "known_findings.json"
    if not path.exists():
        return []
    data = json.loads(path.read_text())
    return [f for f in data.get("findings", []) if f["property"] == prop_id and f["status"] == "open"]


def _match_where(where, case):
    """A finding's `where` is a dict of case-key -> required value (or {"in": [...]}/{"ge": x}...).

    Every key must be present in the case and satisfy its condition; dotted keys walk dicts."""
    for key, cond in where.items():
        cur = case
        for part in key.split("."):
            if isinstance(cur, dict) and part in cur:
                cur = cur[part]
            else:
                return False
        if isinstance(cond, dict):
            if "in" in cond and cur not in cond["in"]:
                return False
            if "ge" in cond and not (cur >= cond["ge"]):
                return False
            if "le" in cond and not (cur <= cond["le"]):
                return False
            if "ne" in cond and cur == cond["ne"]:
                return False
            if "contains" in cond and cond["contains"] not in cur:
                return False
        elif cur != cond:
            return False
    return True


def match_finding(findings, sig, case):
    for f in findings:
        fsig = f["signature"]
        if list(sig[: len(fsig)]) != list(fsig):
            continue
        if _match_where(f.get("where", {}), case if isinstance(case, dict) else {}):
            return f
    return None


# ----------------------------------------------------------------------------------------
# per-task context


class Ctx:
    MAX_SAMPLES = 6

    def __init__(self, prop_id, tier, seed, findings=None):
        self.prop_id = prop_id
        self.tier = tier
        self.seed = seed
        self.findings = load_findings(prop_id) if findings is None else findings
        self.evals = 0
        self.nt_keys = set()
        self.nt_enumerated = 0
        self.samples = []
        self._nsample = 0
        self.counters = {}
        self.known_hits = {}
        self.violations = []
        self._collected = set()
        self.notes = []

    def ev(self, n=1):
        self.evals += n

    def nt(self, key):
        self.nt_keys.add(key if isinstance(key, str) and len(key) == 16 else jhash(key))

    def nt_enum(self, n):
        self.nt_enumerated += n

    def sample(self, obj, every=1):
        self._nsample += 1
        if len(self.samples) < self.MAX_SAMPLES and (self._nsample - 1) % every == 0:
            self.samples.append(obj)

    def count(self, label, n=1):
        self.counters[label] = self.counters.get(label, 0) + n

    def note(self, text):
        if len(self.notes) < 20:
            self.notes.append(text)

    def known(self, sig, case):
        return match_finding(self.findings, sig, case)

    def fail(self, sig, case, msg):
        """Known finding -> count and continue; else raise so that the driver shrinks/reports."""
        f = self.known(sig, case)
        if f is not None:
            self.known_hits[f["id"]] = self.known_hits.get(f["id"], 0) + 1
            return
        if os.environ.get("VERIF_COLLECT"):
            # triage mode: collect one case per root-cause signature and keep searching
            key = json.dumps(list(sig), default=repr)
            if key not in self._collected:
                self._collected.add(key)
                self.violations.append({"sig": list(sig), "case": case, "msg": msg})
            return
        raise Violation(sig, case, msg)

    def guard(self, sig, case, fn, *args, **kw):
        """Call library code inside an oracle: an exception the property does not allow is a
        violation (classified by type and innermost library frame), not a harness error."""
        try:
            return fn(*args, **kw)
        except Violation:
            raise
        except Exception as e:
            where = innermost_lib_frame(e)
            self.fail(tuple(sig) + ("exception", type(e).__name__, where), case,
                      f"{type(e).__name__}: {e} at {where}")
            return None

    def record_violation(self, v: Violation):
        self.violations.append({"sig": v.sig, "case": v.case, "msg": v.msg})

    def export(self):
        return {
            "evals": self.evals,
            "nt_keys": self.nt_keys,
            "nt_enumerated": self.nt_enumerated,
            "samples": self.samples,
            "counters": self.counters,
            "known_hits": self.known_hits,
            "violations": self.violations,
            "notes": self.notes,
        }


# ----------------------------------------------------------------------------------------
# hypothesis helpers


def hyp_settings(max_examples, **kw):
    from hypothesis import HealthCheck, Phase, settings

    phases = kw.pop("phases", (Phase.explicit, Phase.generate, Phase.shrink))
    return settings(
        max_examples=max_examples,
        database=None,
        deadline=None,
        derandomize=False,
        report_multiple_bugs=False,
        suppress_health_check=list(HealthCheck),
        phases=phases,
        print_blob=False,
        **kw,
    )


def run_given(ctx, strategy, body, max_examples, seed, reduce=None, **kw):
    """Run `body(case)` over `strategy` with a pinned seed.  A Violation raised by the body is
    shrunk by Hypothesis; the final (minimal) one is recorded in ctx.  Other exceptions are
    harness errors and propagate.  For expensive bodies pass `reduce=(list_key, budget_s, check_fn)`:
    Hypothesis' shrink phase is skipped and the list case[list_key] is reduced by budgeted ddmin."""
    import hypothesis
    from hypothesis import Phase, given

    if reduce is not None:
        kw["phases"] = (Phase.explicit, Phase.generate)

    @hypothesis.seed(seed)
    @hyp_settings(max_examples, **kw)
    @given(strategy)
    def test(case):
        body(case)

    try:
        test()
    except Violation as v:
        if reduce is not None and isinstance(v.case, dict) and reduce[0] in v.case:
            from vf.shrink import ddmin_list

            key, budget, check_fn = reduce
            sig = list(v.sig)

            def fails(cand):
                c = Ctx(ctx.prop_id, ctx.tier, ctx.seed, findings=ctx.findings)
                try:
                    check_fn(c, {**v.case, key: cand})
                except Violation as v2:
                    return list(v2.sig) == sig
                except Exception:
                    return False
                return False

            v.case = {**v.case, key: ddmin_list(v.case[key], fails, budget)}
        ctx.record_violation(v)
    except BaseExceptionGroup as eg:  # pragma: no cover - report_multiple_bugs is off
        for e in eg.exceptions:
            if isinstance(e, Violation):
                ctx.record_violation(e)
            else:
                raise


def run_machine(ctx, machine_cls, max_examples, steps, seed, exec_factory=None, budget_s=40.0):
    """Histories are expensive to re-execute, so Hypothesis' own shrinker (hard 5-minute cap, hundreds
    of re-executions) is replaced by a budgeted ddmin over the recorded op log when an
    `exec_factory` is given."""
    import hypothesis
    from hypothesis import Phase
    from hypothesis.stateful import run_state_machine_as_test

    phases = (Phase.explicit, Phase.generate) if exec_factory else (Phase.explicit, Phase.generate, Phase.shrink)
    try:
        run_state_machine_as_test(
            hypothesis.seed(seed)(machine_cls),
            settings=hyp_settings(max_examples, stateful_step_count=steps, phases=phases),
        )
    except Violation as v:
        if exec_factory is not None and isinstance(v.case, dict) and "ops" in v.case:
            from vf.hist import minimize_history

            v = minimize_history(ctx, exec_factory, v, budget_s)
        ctx.record_violation(v)


def derive_seed(seed, *parts):
    h = hashlib.blake2b(repr((seed,) + parts).encode(), digest_size=8).digest()
    return int.from_bytes(h, "big") % (2**63)


# ----------------------------------------------------------------------------------------
# runner


def _worker(mod_name, prop_id, tier, seed, lane, kwargs):
    import importlib
    import warnings

    use_repo()
    warnings.simplefilter("ignore")
    mod = importlib.import_module(mod_name)
    ctx = Ctx(prop_id, tier, seed)
    t0 = time.time()
    try:
        mod.run_task(ctx, lane, **kwargs)
    except Violation as v:
        ctx.record_violation(v)
    except Exception:  # harness error
        return {"lane": lane, "error": traceback.format_exc(), **ctx.export(), "wall": time.time() - t0}
    return {"lane": lane, "error": None, **ctx.export(), "wall": time.time() - t0}


def load_regress(prop_id):
    d = VERIF / "regress" / prop_id
    if not d.is_dir():
        return []
    return [(p.name, json.loads(p.read_text())) for p in sorted(d.glob("*.json"))]


def write_replay(prop_id, v):
    d = VERIF / "replays"
    d.mkdir(exist_ok=True)
    body = {"property": prop_id, "sig": v["sig"], "msg": v["msg"], "case": v["case"]}
    name = f"{prop_id}-{jhash([v['sig'], v['case']])}.json"
    (d / name).write_text(json.dumps(body, indent=1, default=repr, ensure_ascii=True))
    return d / name


def run_property(mod, tier, seed, jobs=None):
    """Run all lanes of one property; write evidence; return exit code."""
    use_repo()
    t0 = time.time()
    prop_id = mod.ID
    jobs = jobs or int(os.environ.get("VERIF_JOBS", "16"))
    findings = load_findings(prop_id)
    results = []
    harness_errors = []

    # 1. replay tier: committed regression cases, in-process
    import warnings

    rctx = Ctx(prop_id, tier, seed, findings)
    for name, case in load_regress(prop_id):
        try:
            with warnings.catch_warnings():
                warnings.simplefilter("ignore")
                mod.check_case(rctx, case["case"] if "case" in case and "sig" in case else case)
            rctx.count("regress_cases")
        except Violation as v:
            v.case = {"regress_file": name, **(v.case if isinstance(v.case, dict) else {"case": v.case})}
            rctx.record_violation(v)
        except Exception:
            harness_errors.append(f"regress {name}:\n{traceback.format_exc()}")
    results.append({"lane": "regress", "error": None, **rctx.export(), "wall": time.time() - t0})

    # 2. generated lanes, sharded
    tasks = mod.tasks(tier, seed)
    if jobs <= 1:
        for lane, kwargs in tasks:
            results.append(_worker(mod.__name__, prop_id, tier, seed, lane, kwargs))
    else:
        with ProcessPoolExecutor(max_workers=jobs, mp_context=get_context("fork")) as ex:
            futs = {
                ex.submit(_worker, mod.__name__, prop_id, tier, seed, lane, kwargs): lane
                for lane, kwargs in tasks
            }
            for fut in as_completed(futs):
                try:
                    results.append(fut.result())
                except Exception:
                    harness_errors.append(f"lane {futs[fut]} worker died:\n{traceback.format_exc()}")

    # 3. merge
    evals = 0
    nt_keys = set()
    nt_enum = 0
    samples = []
    counters = {}
    known_hits = {}
    violations = []
    lanes = {}
    notes = []
    for r in results:
        if r.get("error"):
            harness_errors.append(f"lane {r['lane']}:\n{r['error']}")
        evals += r["evals"]
        nt_keys |= r["nt_keys"]
        nt_enum += r["nt_enumerated"]
        for s in r["samples"]:
            if len(samples) < 12:
                samples.append(s)
        for k, n in r["counters"].items():
            counters[k] = counters.get(k, 0) + n
        for k, n in r["known_hits"].items():
            known_hits[k] = known_hits.get(k, 0) + n
        violations.extend(r["violations"])
        notes.extend(r["notes"])
        ln = lanes.setdefault(r["lane"], {"tasks": 0, "evaluations": 0, "wall_s": 0.0})
        ln["tasks"] += 1
        ln["evaluations"] += r["evals"]
        ln["wall_s"] = round(ln["wall_s"] + r["wall"], 2)

    # violations: known findings reported from a driver (not through ctx.fail) are filtered here too
    unknown = []
    for v in violations:
        f = match_finding(findings, v["sig"], v["case"])
        if f is not None:
            known_hits[f["id"]] = known_hits.get(f["id"], 0) + 1
        else:
            unknown.append(v)
    # distinct root-cause signatures
    by_sig = {}
    for v in unknown:
        by_sig.setdefault(json.dumps(v["sig"]), v)

    for f in findings:
        if known_hits.get(f["id"]):
            print(f"KNOWN-FINDING: property={prop_id} {f['id']}: {f['what']} (hit {known_hits[f['id']]}x)")
    exit_code = 0
    for v in by_sig.values():
        path = write_replay(prop_id, v)
        print(f"VIOLATION property={prop_id} replay={path}")
        print(f"  signature={v['sig']} {v['msg'][:400]}")
        exit_code = 1

    wall = time.time() - t0
    ev_dir = Path(os.environ.get("VERIF_EVIDENCE_DIR", VERIF / "evidence"))
    ev_dir.mkdir(parents=True, exist_ok=True)
    evidence = {
        "property_id": prop_id,
        "tier": tier,
        "seed": seed,
        "level": "exploration",
        "coverage": {
            "evaluations": evals,
            "distinct_nontrivial": len(nt_keys) + nt_enum,
            "distinct_nontrivial_hashed": len(nt_keys),
            "distinct_nontrivial_enumerated": nt_enum,
            "rule": mod.RULE,
            "samples": samples,
            "exhaustive": bool(getattr(mod, "EXHAUSTIVE", {}).get(tier, False)),
            "exhaustive_subdomains": getattr(mod, "EXHAUSTIVE_NOTE", ""),
            "classes": dict(sorted(counters.items())),
            "lanes": lanes,
            "known_findings_hit": known_hits,
            "violation_signatures": [json.loads(k) for k in by_sig],
            "notes": notes[:20],
            "harness_errors": len(harness_errors),
            "harness_error_heads": [e[:1500] for e in harness_errors[:3]],
        },
        "assumptions": list(mod.ASSUMPTIONS),
        "wall_s": round(wall, 2),
        "violations": len(by_sig),
    }
    (ev_dir / f"{prop_id}.json").write_text(
        json.dumps(evidence, indent=1, default=repr, ensure_ascii=True)
    )
    if harness_errors:
        for e in harness_errors[:3]:
            lines = [ln[:300] for ln in e.splitlines()]
            shown = lines if len(lines) <= 45 else lines[:25] + ["  ..."] + lines[-18:]
            print("HARNESS-ERROR", "\n".join(shown), file=sys.stderr)
        if exit_code == 0:
            exit_code = 2
    print(
        f"{prop_id} {tier} seed={seed}: evaluations={evals} distinct_nontrivial={len(nt_keys) + nt_enum} "
        f"violations={len(by_sig)} known={sum(known_hits.values())} wall={wall:.1f}s"
    )
    return exit_code


def replay_file(mod, path):
    use_repo()
    import warnings

    data = json.loads(Path(path).read_text())
    case = data["case"] if "case" in data and "sig" in data else data
    if isinstance(case, dict) and "regress_file" in case:
        case = {k: v for k, v in case.items() if k != "regress_file"}
    ctx = Ctx(mod.ID, "quick", 0, findings=[])
    try:
        with warnings.catch_warnings():
            warnings.simplefilter("ignore")
            mod.check_case(ctx, case)
    except Violation as v:
        print(f"VIOLATION property={mod.ID} replay={path}")
        print(f"  signature={v.sig} {v.msg[:2000]}")
        return 1
    print(f"{mod.ID}: replay of {path} holds")
    return 0
