"""Budgeted delta debugging for expensive cases (documents, histories): Hypothesis' own shrinker needs
hundreds of re-executions and has a hard five-minute cap, so for lanes whose single execution costs
0.1-1 s the failing case is reduced here instead.  The budget bounds only how small the replay gets."""
import time


def ddmin_list(items, fails, budget_s=40.0, keep_last=False):
    items = list(items)
    t0 = time.time()
    tail = 1 if keep_last else 0
    changed = True
    while changed and time.time() - t0 < budget_s:
        changed = False
        size = max(1, (len(items) - tail) // 2)
        while size >= 1 and time.time() - t0 < budget_s:
            i = 0
            while i + size <= len(items) - tail and time.time() - t0 < budget_s:
                cand = items[:i] + items[i + size:]
                if fails(cand):
                    items = cand
                    changed = True
                else:
                    i += size
            size //= 2
    return items
