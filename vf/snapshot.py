"""Whole-document observable snapshot through the public API, and a diff."""
import warnings


def _safe(fn):
    try:
        return fn()
    except Exception as e:  # recorded, compared - not fatal
        return f"EXC:{type(e).__name__}"


def _bg(cell):
    img = cell.style.bg_image
    return None if img is None else [img.filename, len(img.data)]


def cell_snapshot(cell, with_formula=True, with_formatted=True, with_image=False):
    cls = type(cell).__name__
    d = {"cls": cls, "value": repr(_safe(lambda: cell.value))}
    if with_formula:
        d["formula"] = _safe(lambda: cell.formula)
    if with_formatted:
        d["formatted"] = _safe(lambda: cell.formatted_value)
    if with_image:
        d["bg_image"] = _safe(lambda: _bg(cell))
    d["merge"] = [getattr(cell, "is_merged", None), _safe(lambda: cell.size), _safe(lambda: cell.rect), _safe(lambda: cell.merge_range)]
    if cls in ("RichTextCell", "BulletedTextCell"):
        d["bullets"] = _safe(lambda: cell.bullets)
        d["hyperlinks"] = _safe(lambda: cell.hyperlinks)
        d["is_bulleted"] = cell.is_bulleted
    return d


def table_snapshot(table, **kw):
    cells = {}
    for r, row in enumerate(table.rows()):
        for c, cell in enumerate(row):
            cells[(r, c)] = cell_snapshot(cell, **kw)
    return {
        "name": table.name,
        "rows": table.num_rows,
        "cols": table.num_cols,
        "merge_ranges": _safe(lambda: table.merge_ranges),
        "cells": cells,
    }


def doc_snapshot(doc, **kw):
    with warnings.catch_warnings():
        warnings.simplefilter("ignore")
        return [[sheet.name, [table_snapshot(t, **kw) for t in sheet.tables]] for sheet in doc.sheets]


def diff(a, b, exempt=None, limit=8):
    """List of human-readable differences between two doc snapshots.  `exempt(sheet, table, r, c, cell_a)`
    may declare a cell exempt; exempt(sheet, table, None, None, None) a whole table."""
    out = []
    if [s[0] for s in a] != [s[0] for s in b]:
        return [f"sheet names/order differ: {[s[0] for s in a]!r} vs {[s[0] for s in b]!r}"]
    for (sname, ta), (_, tb) in zip(a, b):
        if [t["name"] for t in ta] != [t["name"] for t in tb]:
            out.append(f"sheet {sname!r}: table names/order differ: {[t['name'] for t in ta]!r} vs {[t['name'] for t in tb]!r}")
            continue
        for x, y in zip(ta, tb):
            if exempt and exempt(sname, x["name"], None, None, None):
                continue
            where = f"{sname}::{x['name']}"
            if (x["rows"], x["cols"]) != (y["rows"], y["cols"]):
                out.append(f"{where}: dimensions {x['rows']}x{x['cols']} vs {y['rows']}x{y['cols']}")
                continue
            if x["merge_ranges"] != y["merge_ranges"]:
                out.append(f"{where}: merge_ranges {x['merge_ranges']!r} vs {y['merge_ranges']!r}")
            for key, ca in x["cells"].items():
                cb = y["cells"].get(key)
                if ca != cb:
                    if exempt and exempt(sname, x["name"], key[0], key[1], ca):
                        continue
                    fields = [k for k in ca if cb is None or ca.get(k) != cb.get(k)]
                    out.append(f"{where}[{key[0]},{key[1]}]: " + "; ".join(f"{k}: {ca.get(k)!r} -> {None if cb is None else cb.get(k)!r}" for k in fields))
                    if len(out) >= limit:
                        return out
    return out


def count_nonempty(snap):
    return sum(1 for _, ts in snap for t in ts for c in t["cells"].values() if c["cls"] != "EmptyCell")
