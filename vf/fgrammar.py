"""Formula expression trees: Hypothesis generator, Numbers-style post-fix serialiser (explicit LIST nodes for
parentheses), and an INDEPENDENT precedence-climbing parser of the rendered infix text.

Tree nodes (tuples):
  ("num", "int"|"dec", text)      non-negative literal; text is its canonical decimal spelling
  ("str", s)  ("bool", b)  ("date", y, m, d)  ("ref", row, col, row_abs, col_abs)   (absolute coordinates of the target)
  ("neg", x)  ("pct", x)  ("bin", op, a, b)   op in + - * / ^ & = <> < > <= >=
  ("func", name, [args])          an arg may be ("empty",)
  ("list", [items])               parenthesised list with >= 2 items
  ("array", [[row], [row]])       elements are literals
"""
from decimal import Decimal

from hypothesis import strategies as st

PREC = {"=": 1, "<>": 1, "<": 1, ">": 1, "<=": 1, ">=": 1, "&": 2, "+": 3, "-": 3, "*": 4, "/": 4, "^": 5}
NODE = {"+": "ADDITION_NODE", "-": "SUBTRACTION_NODE", "*": "MULTIPLICATION_NODE", "/": "DIVISION_NODE", "^": "POWER_NODE", "&": "CONCATENATION_NODE",
        "=": "EQUAL_TO_NODE", "<>": "NOT_EQUAL_TO_NODE", "<": "LESS_THAN_NODE", ">": "GREATER_THAN_NODE", "<=": "LESS_THAN_OR_EQUAL_TO_NODE",
        ">=": "GREATER_THAN_OR_EQUAL_TO_NODE"}
GLYPH = {"×": "*", "÷": "/", "≠": "<>", "≤": "<=", "≥": ">=", "*": "*", "/": "/"}
INT_MARK = 0x3040000000000000
BIAS = 0x1820


# ------------------------------------------------------------------------------------------
# serialiser

def number_node(kind, text):
    if kind == "int":
        n = int(text)
        return {"AST_node_type": "NUMBER_NODE", "AST_number_node_number": float(n), "AST_number_node_decimal_low": n, "AST_number_node_decimal_high": INT_MARK}
    d = Decimal(text).normalize()
    sign, digits, exp = d.as_tuple()
    mant = int("".join(map(str, digits)))
    return {"AST_node_type": "NUMBER_NODE", "AST_number_node_number": float(d), "AST_number_node_decimal_low": mant % (1 << 64),
            "AST_number_node_decimal_high": ((BIAS * 2) + 2 * exp) << 48}


def is_compound(t):
    return t[0] in ("bin", "neg", "pct")


def serialise(t, host, funcs_by_name, out=None, redundant=None):
    """Append the post-fix nodes of tree t (host = (row, col) of the formula cell)."""
    if out is None:
        out = []
    k = t[0]

    def paren(x):
        serialise(x, host, funcs_by_name, out, redundant)
        out.append({"AST_node_type": "LIST_NODE", "AST_list_node_numArgs": 1})

    def operand(x, need):
        if need:
            paren(x)
        else:
            serialise(x, host, funcs_by_name, out, redundant)

    if k == "num":
        out.append(number_node(t[1], t[2]))
    elif k == "negnum":  # a literal stored with its sign (Numbers stores negative array elements this way, without a negation node)
        node = number_node(t[1], t[2])
        node["AST_number_node_number"] = -node["AST_number_node_number"]
        node["AST_number_node_decimal_high"] |= 1 << 63
        out.append(node)
    elif k == "str":
        out.append({"AST_node_type": "STRING_NODE", "AST_string_node_string": t[1]})
    elif k == "bool":
        out.append({"AST_node_type": "BOOLEAN_NODE", "AST_boolean_node_boolean": t[1]})
    elif k == "date":
        from datetime import datetime

        secs = (datetime(t[1], t[2], t[3]) - datetime(2001, 1, 1)).total_seconds()
        out.append({"AST_node_type": "DATE_NODE", "AST_date_node_dateNum": secs, "AST_date_node_suppress_date_format": False,
                    "AST_date_node_suppress_time_format": True})
    elif k == "ref":
        _, row, col, rabs, cabs = t
        out.append({"AST_node_type": "CELL_REFERENCE_NODE",
                    "AST_row": {"row": row if rabs else row - host[0], "absolute": rabs},
                    "AST_column": {"column": col if cabs else col - host[1], "absolute": cabs}})
    elif k == "empty":
        out.append({"AST_node_type": "EMPTY_ARGUMENT_NODE"})
    elif k == "neg":
        operand(t[1], is_compound(t[1]))
        out.append({"AST_node_type": "NEGATION_NODE"})
    elif k == "pct":
        operand(t[1], is_compound(t[1]))
        out.append({"AST_node_type": "PERCENT_NODE"})
    elif k == "bin":
        _, op, a, b = t
        p = PREC[op]
        if op == "^":
            na, nb = is_compound(a), is_compound(b)
        else:
            na = a[0] == "bin" and PREC[a[1]] < p
            nb = b[0] == "bin" and PREC[b[1]] <= p
        operand(a, na)
        operand(b, nb)
        out.append({"AST_node_type": NODE[op]})
    elif k == "func":
        for a in t[2]:
            serialise(a, host, funcs_by_name, out, redundant)
        out.append({"AST_node_type": "FUNCTION_NODE", "AST_function_node_index": funcs_by_name[t[1]], "AST_function_node_numArgs": len(t[2])})
    elif k == "list":
        for a in t[1]:
            serialise(a, host, funcs_by_name, out, redundant)
        out.append({"AST_node_type": "LIST_NODE", "AST_list_node_numArgs": len(t[1])})
    elif k == "array":
        rows = t[1]
        for r in rows:
            for e in r:
                serialise(e, host, funcs_by_name, out, redundant)
        out.append({"AST_node_type": "ARRAY_NODE", "AST_array_node_numRow": len(rows), "AST_array_node_numCol": len(rows[0])})
    elif k == "paren":  # explicitly redundant parentheses chosen by the generator
        paren(t[1])
    else:
        raise ValueError(k)
    return out


def strip_parens(t):
    """Normal form for comparison: drop ("paren", x) wrappers; dates as DATE() calls."""
    k = t[0]
    if k == "paren":
        return strip_parens(t[1])
    if k in ("neg", "pct"):
        return (k, strip_parens(t[1]))
    if k == "bin":
        return ("bin", t[1], strip_parens(t[2]), strip_parens(t[3]))
    if k == "func":
        return ("func", t[1], [strip_parens(a) for a in t[2]])
    if k == "list":
        return ("list", [strip_parens(a) for a in t[1]])
    if k == "array":
        return ("array", [[strip_parens(e) for e in r] for r in t[1]])
    if k == "date":
        return ("func", "DATE", [("num", Decimal(t[1])), ("num", Decimal(t[2])), ("num", Decimal(t[3]))])
    if k == "num":
        return ("num", Decimal(t[2]))
    if k == "negnum":  # printed with a minus sign, which reads back as a negation of the magnitude
        return ("neg", ("num", Decimal(t[2])))
    return t


# ------------------------------------------------------------------------------------------
# independent parser of the rendered text

class ParseError(Exception):
    pass


def tokenize(s):
    i, n = 0, len(s)
    toks = []
    while i < n:
        ch = s[i]
        if ch == '"':
            j = i + 1
            buf = []
            while True:
                if j >= n:
                    raise ParseError("unterminated string")
                if s[j] == '"':
                    if j + 1 < n and s[j + 1] == '"':
                        buf.append('"')
                        j += 2
                        continue
                    break
                buf.append(s[j])
                j += 1
            toks.append(("str", "".join(buf)))
            i = j + 1
        elif ch.isdigit() or (ch == "." and i + 1 < n and s[i + 1].isdigit()):
            j = i
            while j < n and (s[j].isdigit() or s[j] == "."):
                j += 1
            if j < n and s[j] in "eE" and j + 1 < n and (s[j + 1].isdigit() or s[j + 1] in "+-"):
                j += 2
                while j < n and s[j].isdigit():
                    j += 1
            toks.append(("num", s[i:j]))
            i = j
        elif ch.isalpha() or ch == "$":
            j = i
            while j < n and (s[j].isalnum() or s[j] in "$._"):
                j += 1
            toks.append(("id", s[i:j]))
            i = j
        elif s[i:i + 2] in ("<>", "<=", ">="):
            toks.append(("op", s[i:i + 2]))
            i += 2
        elif ch in "+-^&=<>%":
            toks.append(("op", ch))
            i += 1
        elif ch in GLYPH:
            toks.append(("op", GLYPH[ch]))
            i += 1
        elif ch in "(){},;":
            toks.append((ch, ch))
            i += 1
        elif ch == " ":
            i += 1
        else:
            raise ParseError(f"unexpected character {ch!r} at {i}")
    toks.append(("end", None))
    return toks


class Parser:
    def __init__(self, text):
        self.toks = tokenize(text)
        self.i = 0

    def peek(self):
        return self.toks[self.i]

    def take(self, kind=None, val=None):
        t = self.toks[self.i]
        if kind is not None and t[0] != kind or val is not None and t[1] != val:
            raise ParseError(f"expected {kind} {val}, got {t}")
        self.i += 1
        return t

    def parse(self):
        t = self.expr(0)
        if self.peek()[0] != "end":
            raise ParseError(f"trailing tokens from {self.peek()}")
        return t

    def expr(self, minp):
        left = self.unary()
        while True:
            t = self.peek()
            if t[0] == "op" and t[1] in PREC and PREC[t[1]] >= minp:
                op = t[1]
                self.take()
                right = self.expr(PREC[op] + 1)  # left associative
                left = ("bin", op, left, right)
            else:
                return left

    def unary(self):
        t = self.peek()
        if t[0] == "op" and t[1] == "-":
            self.take()
            # unary minus binds tighter than every binary operator except that its operand may carry '%'
            return ("neg", self.unary_operand())
        return self.postfix()

    def unary_operand(self):
        t = self.peek()
        if t[0] == "op" and t[1] == "-":
            self.take()
            return ("neg", self.unary_operand())
        return self.postfix()

    def postfix(self):
        x = self.primary()
        while self.peek() == ("op", "%"):
            self.take()
            x = ("pct", x)
        return x

    def primary(self):
        t = self.take()
        if t[0] == "num":
            return ("num", Decimal(t[1]))
        if t[0] == "str":
            return ("str", t[1])
        if t[0] == "id":
            name = t[1]
            if self.peek()[0] == "(":
                self.take()
                args = []
                if self.peek()[0] == ")":
                    self.take()
                    return ("func", name, [])
                while True:
                    if self.peek()[0] in (",", ")"):
                        args.append(("empty",))
                    else:
                        args.append(self.expr(0))
                    if self.peek()[0] == ",":
                        self.take()
                        if self.peek()[0] == ")":
                            args.append(("empty",))
                            self.take()
                            break
                        continue
                    self.take(")")
                    break
                return ("func", name, args)
            if name in ("TRUE", "FALSE"):
                return ("bool", name == "TRUE")
            import re

            m = re.fullmatch(r"(\$?)([A-Z]+)(\$?)([0-9]+)", name)
            if m:
                from vf import a1

                return ("ref", int(m.group(4)) - 1, a1.col_index(m.group(2)), m.group(3) == "$", m.group(1) == "$")
            raise ParseError(f"unknown identifier {name!r}")
        if t[0] == "(":
            items = [self.expr(0)]
            while self.peek()[0] == ",":
                self.take()
                items.append(self.expr(0))
            self.take(")")
            return items[0] if len(items) == 1 else ("list", items)
        if t[0] == "{":
            rows = [[self.expr(0)]]
            while self.peek()[0] in (",", ";"):
                sep = self.take()[0]
                if sep == ";":
                    rows.append([])
                rows[-1].append(self.expr(0))
            self.take("}")
            return ("array", rows)
        raise ParseError(f"unexpected token {t}")


def parse(text):
    return Parser(text).parse()


# ------------------------------------------------------------------------------------------
# generator

def dec_text(mant, exp10):
    """canonical plain decimal text of mant x 10^exp10 (mant has no trailing zero)"""
    d = Decimal(mant).scaleb(exp10)
    return format(d, "f")


@st.composite
def numbers(draw, wide=False):
    if draw(st.integers(0, 2)) == 0:
        hi = 10**18 if wide else 10**15
        return ("num", "int", str(draw(st.integers(0, 999) | st.integers(0, hi))))
    mant = draw(st.integers(1, 10**9 - 1).filter(lambda m: m % 10 != 0) | st.integers(1, 9))
    exp = draw(st.integers(-12, -1) | (st.integers(-12, 17) if wide else st.integers(-12, -1)))
    if exp >= 0:
        # a non-integer-flagged literal of integral magnitude only makes sense when Numbers would store it that way (>= 1e16)
        if mant * 10**exp < 10**16:
            exp = -draw(st.integers(1, 6))
    return ("num", "dec", dec_text(mant, exp))


strings = st.text(max_size=8) | st.sampled_from(['a"b', '""', '"', "it's", "a,b", "x;y", "(", "}", "=1", "TRUE", " ", "é😀", 'say "hi"'])
literals = st.one_of(numbers(), strings.map(lambda s: ("str", s)), st.booleans().map(lambda b: ("bool", b)))


def trees(funcs, rows, cols, max_depth=5, wide_numbers=False):
    refs = st.tuples(st.integers(0, rows - 1), st.integers(0, cols - 1), st.booleans(), st.booleans()).map(lambda t: ("ref", *t))
    dates = st.tuples(st.integers(1990, 2050), st.integers(1, 12), st.integers(1, 28)).map(lambda t: ("date", *t))
    leaves = st.one_of(numbers(wide_numbers), numbers(wide_numbers), strings.map(lambda s: ("str", s)), st.booleans().map(lambda b: ("bool", b)), refs, refs, dates)
    array_elems = st.one_of(numbers(), strings.map(lambda s: ("str", s)), st.booleans().map(lambda b: ("bool", b)), numbers().map(lambda n: ("neg", n)),
                              numbers().filter(lambda n: Decimal(n[2]) != 0).map(lambda n: ("negnum", n[1], n[2])))

    @st.composite
    def arrays(draw):
        nr, nc = draw(st.integers(1, 3)), draw(st.integers(1, 4))
        if nr == 1 and nc == 1:
            nc = 2
        return ("array", [[draw(array_elems) for _ in range(nc)] for _ in range(nr)])

    def extend(children):
        ops = st.sampled_from(list(PREC))
        binary = st.tuples(ops, children, children).map(lambda t: ("bin", *t))
        neg = children.map(lambda x: ("neg", x))
        pct = children.map(lambda x: ("pct", x))
        lists = st.lists(children, min_size=2, max_size=3).map(lambda l: ("list", l))
        paren = children.map(lambda x: ("paren", x))
        args = st.lists(children | st.just(("empty",)), max_size=5)
        calls = st.tuples(st.sampled_from(funcs), args).map(lambda t: ("func", t[0], [] if t[1] == [("empty",)] else t[1]))
        return st.one_of(binary, binary, binary, neg, pct, calls, calls, lists, paren, arrays())

    return st.recursive(leaves, extend, max_leaves=12)


def features(t, acc=None):
    acc = set() if acc is None else acc
    k = t[0]
    if k == "bin":
        acc.add("noncommutative" if t[1] in ("-", "/", "^", "&", "<", ">", "<=", ">=") else "commutative")
        features(t[2], acc)
        features(t[3], acc)
    elif k in ("neg", "pct", "paren"):
        acc.add(k)
        features(t[1], acc)
    elif k == "func":
        acc.add("func")
        if len(t[2]) >= 2:
            acc.add("func_2plus_args")
        if any(a == ("empty",) for a in t[2]):
            acc.add("empty_arg")
        for a in t[2]:
            if a != ("empty",):
                features(a, acc)
    elif k == "list":
        acc.add("list")
        for a in t[1]:
            features(a, acc)
    elif k == "array":
        acc.add("array2d" if len(t[1]) > 1 else "array1d")
        if any(e[0] == "negnum" for r in t[1] for e in r):
            acc.add("signed_literal")
    elif k == "str":
        acc.add("string")
        if '"' in t[1]:
            acc.add("string_with_quote")
    elif k == "num":
        acc.add("num_" + t[1])
    else:
        acc.add(k)
    return acc


def canon(t):
    """JSON-able canonical form (nested lists; Decimal as normalised text) used for comparison and replay."""
    if isinstance(t, Decimal):
        return "D:" + format(t.normalize(), "f")
    if isinstance(t, (list, tuple)):
        return [canon(x) for x in t]
    return t


def from_json(t):
    """Replay form -> tree (lists are fine for every consumer here)."""
    return t
