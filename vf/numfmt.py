"""Exact read-back of displayed numbers (C13): strip decoration by notation, obtain an exact Fraction,
compare with the cell value as an exact decimal."""
import re
from decimal import Decimal
from fractions import Fraction

DIGITS36 = "0123456789ABCDEFGHIJKLMNOPQRSTUVWXYZ"


def exact(v):
    """The cell value as an exact rational: the shortest decimal that round-trips (<= 15..17 digits)."""
    if isinstance(v, int):
        return Fraction(v)
    return Fraction(Decimal(repr(float(v))))


class Bad(Exception):
    def __init__(self, kind, msg):
        super().__init__(msg)
        self.kind = kind


def _plain_decimal(body, want_sep, places, what):
    """body: digits with optional commas, optional '.', optional exponent (only when places is None).
    -> (Fraction magnitude, decimals shown or None)"""
    m = re.fullmatch(r"([0-9][0-9,]*|)(?:\.([0-9]+))?(?:[eE]([+-]?[0-9]+))?", body)
    if not m or (m.group(1) == "" and m.group(2) is None):
        raise Bad("unparseable", f"{what}: cannot read {body!r} as a number")
    ipart, fpart, epart = m.group(1), m.group(2), m.group(3)
    if "," in ipart:
        if not want_sep:
            raise Bad("separator_unasked", f"{what}: grouping separators in {body!r} were not asked for")
        if not re.fullmatch(r"[0-9]{1,3}(,[0-9]{3})*", ipart):
            raise Bad("separator_misplaced", f"{what}: grouping separators of {body!r} are not between 3-digit groups")
    elif want_sep and len(ipart) > 3 and epart is None:
        raise Bad("separator_missing", f"{what}: {body!r} has no grouping separators although they were asked for")
    digits = ipart.replace(",", "") or "0"
    val = Fraction(int(digits))
    if fpart is not None:
        val += Fraction(int(fpart), 10 ** len(fpart))
    if epart is not None:
        if places is not None:
            raise Bad("unexpected_exponent", f"{what}: exponent in {body!r}")
        val *= Fraction(10) ** int(epart)
    shown = len(fpart) if fpart is not None else 0
    if places is not None and shown != places:
        raise Bad("decimals_count", f"{what}: {body!r} shows {shown} decimals, {places} were asked for")
    return val, shown, epart


def check_decimal_like(kind, kw, v, text):
    """number / percentage / currency"""
    V = exact(v)
    places = kw.get("decimal_places")
    if kind == "currency" and places is None:
        places = 2
    sep = bool(kw.get("show_thousands_separator"))
    style = int(kw.get("negative_style", 0))
    accounting = bool(kw.get("use_accounting_style"))
    t = text
    scale = 1
    if kind == "percentage":
        inner = t[1:-1] if (t.startswith("(") and t.endswith(")")) else t
        if not inner.endswith("%"):
            raise Bad("percent_sign", f"percentage text {text!r} does not carry a trailing '%'")
        t = t.replace("%", "", 1) if t.count("%") == 1 else t
        if "%" in t:
            raise Bad("percent_sign", f"percentage text {text!r} has more than one '%'")
        scale = 100
    neg_markers = 0
    if kind == "currency":
        # a '-' may precede the symbol
        m = re.match(r"^(-?)([^0-9.,()\-\t ]+)( *\t| +)?", t)
        if not m:
            raise Bad("currency_symbol", f"currency text {text!r} has no symbol")
        if m.group(1):
            neg_markers += 1
        t = t[m.end():]
        if accounting and not (m.group(3) or "").endswith("\t"):
            raise Bad("accounting_layout", f"accounting layout without tab in {text!r}")
    if t.startswith("(") and t.endswith(")"):
        neg_markers += 1
        t = t[1:-1]
        paren = True
    else:
        paren = False
    if t.startswith("-"):
        neg_markers += 1
        t = t[1:]
    mag, shown, epart = _plain_decimal(t, sep, places, kind)
    target = abs(V) * scale
    unit = Fraction(1, 10 ** shown) if epart is None else Fraction(10) ** (int(epart) - shown)
    if places is None and epart is None and "." in t and t.endswith("0"):
        # automatic decimals show the decimals the value has, none padded: "7.0%" for 0.07 next to "30%" for 0.3 is not what was asked
        raise Bad("auto_trailing_zero", f"{kind} text {text!r} under automatic decimals ends in a decimal zero")
    if places is None:
        # automatic: no particular count asked, so the number of decimals shown is no licence to drop digits: the text must be the
        # value to 15 significant digits (one more decimal order is allowed for float noise), however small the value is
        tol = abs(target) / Fraction(10) ** 14
    else:
        tol = unit / 2
    if abs(mag - target) > tol:
        raise Bad("digits", f"{kind} text {text!r} reads {float(mag)!r}, value is {float(target)!r} (tolerance {float(tol)!r})")
    # sign
    rounds_to_zero = mag == 0
    import math

    negative = V < 0 or (V == 0 and isinstance(v, float) and math.copysign(1.0, v) < 0 and neg_markers > 0)
    uses_paren = style >= 2 or (kind == "currency" and accounting)
    if negative and not rounds_to_zero:
        if style == 1 and not (kind == "currency" and accounting):
            want = 0  # red, no sign
        else:
            want = 1
        if neg_markers != want:
            raise Bad("sign", f"{kind} text {text!r} carries {neg_markers} negative markers for a negative value under style {style}")
        if want and paren != uses_paren:
            raise Bad("sign_style", f"{kind} text {text!r}: wrong negative marker for style {style} accounting={accounting}")
    elif not negative and neg_markers:
        raise Bad("sign", f"{kind} text {text!r} carries a negative marker for a non-negative value")
    elif negative and rounds_to_zero and neg_markers > 1:
        raise Bad("sign", f"{kind} text {text!r} carries {neg_markers} negative markers")
    return mag


def check_scientific(kw, v, text):
    V = exact(v)
    places = kw.get("decimal_places")
    m = re.fullmatch(r"(-?)([0-9])(?:\.([0-9]+))?E([+-][0-9]{2,})", text)
    if not m:
        raise Bad("unparseable", f"scientific text {text!r} is not d.dddE+xx")
    shown = len(m.group(3) or "")
    if places is not None and places < 200 and shown != places:
        raise Bad("decimals_count", f"scientific text {text!r} shows {shown} decimals, {places} asked")
    mant = Fraction(int(m.group(2) + (m.group(3) or "")), 10 ** shown)
    e = int(m.group(4))
    P = mant * Fraction(10) ** e
    if m.group(1):
        P = -P
    unit = Fraction(10) ** (e - shown)
    if abs(P - V) > unit / 2:
        raise Bad("digits", f"scientific text {text!r} reads {float(P)!r}, value is {float(V)!r}")
    if (V < 0) != bool(m.group(1)) and P != 0:
        raise Bad("sign", f"scientific text {text!r} has the wrong sign for {float(V)!r}")
    if int(m.group(2)) == 0 and V != 0 and P != 0:
        raise Bad("not_normalised", f"scientific text {text!r} is not normalised")
    return P


def check_base(kw, v, text):
    V = exact(v)
    base = int(kw.get("base", 10))
    places = int(kw.get("base_places", 0))
    minus = kw.get("base_use_minus_sign", True)
    t = text
    neg = t.startswith("-")
    if neg:
        t = t[1:]
    if not t or any(ch not in DIGITS36[:base] for ch in t):
        raise Bad("unparseable", f"base-{base} text {text!r} has foreign digits")
    P = int(t, base)
    if V < 0 and not minus and base in (2, 8, 16):
        if neg:
            raise Bad("sign", f"two's-complement text {text!r} carries a minus sign")
        # P = 2^w + R with R the rounded value, w >= 32, top bit set
        for R in {int(V), int(V) - 1, int(V) + 1}:
            if abs(Fraction(R) - V) <= Fraction(1, 2) and R < 0:
                for w in range(32, 400):
                    if P == (1 << w) + R and -R <= (1 << (w - 1)):
                        return Fraction(R)
        if abs(V) <= Fraction(1, 2) and P == 0:
            return Fraction(0)
        raise Bad("twos_complement", f"text {text!r} (= {P}) is not 2^w + round({float(V)}) for any w >= 32 with the sign bit set")
    val = -P if neg else P
    if abs(Fraction(val) - V) > Fraction(1, 2):
        raise Bad("digits", f"base-{base} text {text!r} reads {val}, value is {float(V)!r}")
    if neg and val == 0:
        pass
    if (V < 0) != neg and val != 0:
        raise Bad("sign", f"base-{base} text {text!r} has the wrong sign for {float(V)!r}")
    if len(t) < places:
        raise Bad("zero_padding", f"base-{base} text {text!r} is shorter than base_places={places}")
    if len(t) > max(places, 1) and t[0] == "0":
        raise Bad("zero_padding", f"base-{base} text {text!r} has more leading zeros than base_places={places}")
    return Fraction(val)


def check_fraction(kw, v, text):
    V = exact(v)
    acc = int(kw.get("fraction_accuracy", 0xFFFFFFFD))
    m = re.fullmatch(r"(-?)(?:([0-9]+)(?: ([0-9]+)/([0-9]+))?|([0-9]+)/([0-9]+))", text)
    if not m:
        raise Bad("unparseable", f"fraction text {text!r}")
    neg = bool(m.group(1))
    if m.group(5) is not None:
        whole, num, den = 0, int(m.group(5)), int(m.group(6))
    else:
        whole = int(m.group(2))
        num, den = (int(m.group(3)), int(m.group(4))) if m.group(3) is not None else (0, 1)
    if den == 0:
        raise Bad("unparseable", f"fraction text {text!r} has a zero denominator")
    if m.group(3) is not None and not (0 < num < den):
        # in mixed notation the fraction is a proper one: a part that rounds up to a whole is carried into the integer digits
        raise Bad("improper", f"fraction text {text!r}: {num}/{den} next to a whole number is not a proper fraction")
    P = Fraction(whole) + Fraction(num, den)
    if neg:
        P = -P
    if acc & 0xFF000000:
        ndig = 0x100000000 - acc
        maxden = 10**ndig - 1
        if den > maxden:
            raise Bad("denominator", f"fraction text {text!r}: denominator exceeds {ndig} digits")
        best = V.limit_denominator(maxden)
        if abs(P - V) > abs(best - V):
            raise Bad("digits", f"fraction text {text!r} (= {P}) is not the closest fraction to {float(V)!r} with denominator <= {maxden} ({best} is closer)")
    else:
        if num and den != acc:
            raise Bad("denominator", f"fraction text {text!r}: denominator {den} != accuracy {acc}")
        if abs(P - V) > Fraction(1, 2 * acc):
            raise Bad("digits", f"fraction text {text!r} (= {P}) differs from {float(V)!r} by more than 1/{2 * acc}")
    if P != 0 and (P < 0) != (V < 0):
        raise Bad("sign", f"fraction text {text!r} has the wrong sign for {float(V)!r}")
    return P


def check(kind, kw, v, text):
    """Raises Bad(kind, message) when the displayed text does not agree with the value."""
    if not isinstance(text, str):
        raise Bad("not_text", f"formatted value is {text!r}")
    if kind in ("number", "percentage", "currency"):
        return check_decimal_like(kind, kw, v, text)
    if kind == "scientific":
        return check_scientific(kw, v, text)
    if kind == "base":
        return check_base(kw, v, text)
    if kind == "fraction":
        return check_fraction(kw, v, text)
    if kind == "rating":
        # the number of stars is the value rounded to a whole number (either tie rule)
        if set(text) - {"★"}:
            raise Bad("stars", f"rating text {text!r} for value {v!r}")
        if abs(Fraction(len(text)) - exact(v)) > Fraction(1, 2):
            raise Bad("stars", f"rating text {text!r} shows {len(text)} stars for value {v!r}")
        return Fraction(len(text))
    raise ValueError(kind)
