"""Independent reference resolver (C09).

A *naming configuration* describes a document:
  {"sheets": [{"name": str, "tables": [{"name": str, "rows": n, "cols": m, "hr": h, "hc": k,
                                          "col_labels": {col: str}, "row_labels": {row: str}}]}]}
col_labels[c] is the text of the last header row in column c (c >= hc), row_labels[r] likewise for the last
header column.  A label *names* a row/column of a table iff it is non-empty and occurs exactly once among
that table's row labels resp. column labels.

resolve(text, config, host) parses a printed reference `[Sheet::][Table::]ref` and returns the set of
(sheet_index, table_index, target) it can denote given only the document's names."""
import re

from vf import a1

CELL = re.compile(r"^(\$?)([A-Z]+)(\$?)([0-9]+)$")
COL = re.compile(r"^(\$?)([A-Z]+)$")
ROW = re.compile(r"^(\$?)([0-9]+)$")


class Unreadable(Exception):
    pass


# characters that end or start an operand in a formula: a name containing one has to be quoted to stay one operand
BREAKERS = "+-*/^&=<>,;(){}\"#%×÷≥≤≠:"


def named(table, axis):
    """label -> index for labels that name exactly one row/column of the table"""
    labels = table["row_labels"] if axis == "row" else table["col_labels"]
    counts = {}
    for idx, lab in labels.items():
        counts.setdefault(lab, []).append(int(idx))
    # a label that also heads a line of the other axis of the same table has two readings: it names nothing
    other = set((table["col_labels"] if axis == "row" else table["row_labels"]).values())
    return {lab: idxs[0] for lab, idxs in counts.items() if lab not in ("", None) and len(idxs) == 1 and lab not in other}


def split_scopes(text):
    """split on '::' outside single quotes ('' inside quotes toggles twice, i.e. stays inside)"""
    parts, cur, i, q = [], "", 0, False
    while i < len(text):
        ch = text[i]
        if ch == "'":
            q = not q
            cur += ch
            i += 1
        elif not q and text.startswith("::", i):
            parts.append(cur)
            cur = ""
            i += 2
        else:
            cur += ch
            i += 1
    parts.append(cur)
    return parts


def split_range(ref):
    """split 'a:b' on the colon outside single quotes -> [a] or [a, b]"""
    parts, cur, q = [], "", False
    for ch in ref:
        if ch == "'":
            q = not q
            cur += ch
        elif ch == ":" and not q:
            parts.append(cur)
            cur = ""
        else:
            cur += ch
    parts.append(cur)
    if len(parts) > 2:
        raise Unreadable(f"more than one ':' in {ref!r}")
    return parts


def unquote(tok):
    """-> (label, is_abs)"""
    if len(tok) >= 2 and tok[0] == "'" and tok[-1] == "'":
        tok = tok[1:-1].replace("''", "'")
    is_abs = tok.startswith("$")
    if is_abs:
        tok = tok[1:]
    return tok, is_abs


def parse_ref(ref):
    """-> dict(kind=cell|rect|rows|cols|label|label_range, ...) with coordinates / labels and '$' marks"""
    parts = split_range(ref)
    quoted = any(p.startswith("'") for p in parts)
    if not quoted:
        ms = [CELL.match(p) for p in parts]
        if all(ms):
            pts = [(int(m.group(4)) - 1, a1.col_index(m.group(2)), m.group(3) == "$", m.group(1) == "$") for m in ms]
            if len(pts) == 1:
                return {"kind": "cell", "row": pts[0][0], "col": pts[0][1], "row_abs": pts[0][2], "col_abs": pts[0][3]}
            return {"kind": "rect", "r0": pts[0][0], "c0": pts[0][1], "r1": pts[1][0], "c1": pts[1][1],
                    "abs": [pts[0][2], pts[1][2], pts[0][3], pts[1][3]]}
        ms = [COL.match(p) for p in parts]
        if all(ms):
            cs = [(a1.col_index(m.group(2)), m.group(1) == "$") for m in ms]
            return {"kind": "cols", "c0": cs[0][0], "c1": cs[-1][0], "abs": [cs[0][1], cs[-1][1]], "single": len(cs) == 1}
        ms = [ROW.match(p) for p in parts]
        if all(ms) and len(parts) == 2:
            rs = [(int(m.group(2)) - 1, m.group(1) == "$") for m in ms]
            return {"kind": "rows", "r0": rs[0][0], "r1": rs[1][0], "abs": [rs[0][1], rs[1][1]]}
    labs = [unquote(p) for p in parts]
    if any(lab == "" for lab, _ in labs):
        raise Unreadable(f"empty name in reference {ref!r}")
    return {"kind": "label" if len(labs) == 1 else "label_range", "labels": [l for l, _ in labs], "abs": [a for _, a in labs]}


def tables_of(config):
    for si, sh in enumerate(config["sheets"]):
        for ti, t in enumerate(sh["tables"]):
            yield si, ti, sh, t


def label_targets(table, p):
    """Targets (axis, i0, i1) a label / label range can denote inside one table."""
    out = []
    for axis in ("row", "col"):
        nm = named(table, axis)
        if all(lab in nm for lab in p["labels"]):
            idx = [nm[lab] for lab in p["labels"]]
            out.append((axis, idx[0], idx[-1]))
    return out


def resolve(text, config, host):
    """-> list of (sheet_index, table_index, parsed_ref, label_target or None): every reading the text admits."""
    hs, ht = host
    scopes = split_scopes(text)
    if len(scopes) > 3:
        raise Unreadable(f"too many scopes in {text!r}")
    ref = scopes[-1]
    for x in scopes[:-1]:
        # a sheet or table name printed without quotes must not contain characters that end an operand of a formula
        if not (len(x) >= 2 and x[0] == "'" and x[-1] == "'") and any(ch in x for ch in BREAKERS):
            raise Unreadable(f"scope name {x!r} is printed without quotes although it contains an operator or separator")
    scopes = [x[1:-1].replace("''", "'") if len(x) >= 2 and x[0] == "'" and x[-1] == "'" else x for x in scopes[:-1]] + [ref]
    p = parse_ref(ref)
    is_label = p["kind"] in ("label", "label_range")
    if len(scopes) == 3:
        cands = [(si, ti) for si, ti, sh, t in tables_of(config) if sh["name"] == scopes[0] and t["name"] == scopes[1]]
    elif len(scopes) == 2:
        cands = [(si, ti) for si, ti, sh, t in tables_of(config) if si == hs and t["name"] == scopes[0]]
        if not cands:
            cands = [(si, ti) for si, ti, sh, t in tables_of(config) if t["name"] == scopes[0]]
    else:
        if not is_label:
            cands = [(hs, ht)]
        else:
            host_table = config["sheets"][hs]["tables"][ht]
            if label_targets(host_table, p):
                cands = [(hs, ht)]
            else:
                everywhere = [(si, ti) for si, ti, sh, t in tables_of(config) if label_targets(t, p)]
                if len(everywhere) <= 1:
                    cands = everywhere
                else:
                    cands = [(si, ti) for si, ti in everywhere if si == hs]
                    if len(cands) != 1:
                        cands = everywhere  # ambiguous: reported by the caller
    out = []
    for si, ti in cands:
        t = config["sheets"][si]["tables"][ti]
        if is_label:
            for tgt in label_targets(t, p):
                out.append((si, ti, p, tgt))
        else:
            out.append((si, ti, p, None))
    return out
