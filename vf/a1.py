"""Independent A1 codec: bijective base-26 column names (written from the definition, not from
the library): column k (0-based) is the k-th string in the shortlex enumeration of A..Z strings."""
import re

LETTERS = "ABCDEFGHIJKLMNOPQRSTUVWXYZ"


def col_name(col: int) -> str:
    if col < 0:
        raise ValueError(col)
    # shortlex rank -> string: find the length, then the offset within that length, then base 26
    length, block = 1, 26
    while col >= block:
        col -= block
        length += 1
        block *= 26
    out = []
    for _ in range(length):
        col, d = divmod(col, 26)
        out.append(LETTERS[d])
    return "".join(reversed(out))


def col_index(name: str) -> int:
    n = len(name)
    base = sum(26**k for k in range(1, n))  # names shorter than this one
    v = 0
    for ch in name:
        v = v * 26 + LETTERS.index(ch)
    return base + v


_CELL = re.compile(r"^(\$?)([A-Z]+)(\$?)([0-9]+)$")


def cell_name(row, col, row_abs=False, col_abs=False):
    return ("$" if col_abs else "") + col_name(col) + ("$" if row_abs else "") + str(row + 1)


def parse_cell(text):
    """-> (row, col, row_abs, col_abs) or None"""
    m = _CELL.match(text)
    if not m:
        return None
    return int(m.group(4)) - 1, col_index(m.group(2)), m.group(3) == "$", m.group(1) == "$"
