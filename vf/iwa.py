"""INDEPENDENT IWA container codec (no library code, no snappy/protobuf bindings):
   file    := chunk*
   chunk   := 0x00  len24le  payload           payload = raw snappy (no stream header/CRC) of <= 64 KiB
   stream  := segment*                         (concatenation of the inflated chunks)
   segment := varint(len(ArchiveInfo))  ArchiveInfo  message_bytes*     lengths from ArchiveInfo.message_infos[i].length
"""

CHUNK = 65536


class FormatError(Exception):
    pass


# ---------------------------------------------------------------- varint / protobuf wire format

def read_varint(buf, pos):
    shift = 0
    val = 0
    while True:
        if pos >= len(buf):
            raise FormatError("truncated varint")
        b = buf[pos]
        pos += 1
        val |= (b & 0x7F) << shift
        if not b & 0x80:
            return val, pos
        shift += 7
        if shift > 70:
            raise FormatError("varint too long")


def write_varint(v):
    out = bytearray()
    while True:
        b = v & 0x7F
        v >>= 7
        if v:
            out.append(b | 0x80)
        else:
            out.append(b)
            return bytes(out)


def wire_fields(buf):
    """Split a protobuf message into (field_number, wire_type, value, raw_bytes) without a schema."""
    pos = 0
    out = []
    n = len(buf)
    while pos < n:
        start = pos
        key, pos = read_varint(buf, pos)
        fno, wt = key >> 3, key & 7
        if wt == 0:
            val, pos = read_varint(buf, pos)
        elif wt == 1:
            val = bytes(buf[pos:pos + 8])
            pos += 8
        elif wt == 2:
            ln, pos = read_varint(buf, pos)
            val = bytes(buf[pos:pos + ln])
            if len(val) != ln:
                raise FormatError("truncated length-delimited field")
            pos += ln
        elif wt == 5:
            val = bytes(buf[pos:pos + 4])
            pos += 4
        else:
            raise FormatError(f"unsupported wire type {wt}")
        if pos > n:
            raise FormatError("field runs past the end")
        out.append((fno, wt, val, bytes(buf[start:pos])))
    return out


# ---------------------------------------------------------------- raw snappy

def snappy_decompress(data):
    """Raw snappy block format."""
    n, pos = read_varint(data, 0)
    out = bytearray()
    ln = len(data)
    while pos < ln:
        tag = data[pos]
        pos += 1
        t = tag & 3
        if t == 0:
            size = tag >> 2
            if size >= 60:
                nb = size - 59
                if pos + nb > ln:
                    raise FormatError("snappy: truncated literal length")
                size = int.from_bytes(data[pos:pos + nb], "little")
                pos += nb
            size += 1
            if pos + size > ln:
                raise FormatError("snappy: truncated literal")
            out += data[pos:pos + size]
            pos += size
            continue
        if t == 1:
            length = ((tag >> 2) & 7) + 4
            if pos >= ln:
                raise FormatError("snappy: truncated copy")
            offset = ((tag >> 5) << 8) | data[pos]
            pos += 1
        elif t == 2:
            length = (tag >> 2) + 1
            if pos + 2 > ln:
                raise FormatError("snappy: truncated copy")
            offset = int.from_bytes(data[pos:pos + 2], "little")
            pos += 2
        else:
            length = (tag >> 2) + 1
            if pos + 4 > ln:
                raise FormatError("snappy: truncated copy")
            offset = int.from_bytes(data[pos:pos + 4], "little")
            pos += 4
        if offset == 0 or offset > len(out):
            raise FormatError("snappy: bad copy offset")
        start = len(out) - offset
        if offset >= length:
            out += out[start:start + length]
        else:
            for i in range(length):
                out.append(out[start + i])
    if len(out) != n:
        raise FormatError(f"snappy: declared {n} bytes, inflated {len(out)}")
    return bytes(out)


def snappy_compress_literal(data):
    """A valid raw-snappy encoding that uses literals only (independent of any compressor)."""
    out = bytearray(write_varint(len(data)))
    pos = 0
    while pos < len(data):
        piece = data[pos:pos + 65536]
        n = len(piece) - 1
        if n < 60:
            out.append(n << 2)
        elif n < 256:
            out.append(60 << 2)
            out.append(n)
        else:
            out.append(61 << 2)
            out += n.to_bytes(2, "little")
        out += piece
        pos += len(piece)
    return bytes(out)


def is_valid_snappy(data):
    try:
        snappy_decompress(data)
        return True
    except (FormatError, IndexError):
        return False


# ---------------------------------------------------------------- container

def split_chunks(buf):
    """-> list of payloads; validates marker byte and 3-byte length."""
    pos = 0
    out = []
    while pos < len(buf):
        if pos + 4 > len(buf):
            raise FormatError("truncated chunk header")
        if buf[pos] != 0:
            raise FormatError(f"chunk marker {buf[pos]:#x} != 0")
        ln = int.from_bytes(buf[pos + 1:pos + 4], "little")
        payload = bytes(buf[pos + 4:pos + 4 + ln])
        if len(payload) != ln:
            raise FormatError("chunk length exceeds data")
        out.append(payload)
        pos += 4 + ln
    return out


def stream_of(buf, allow_stored=True):
    """Uncompressed archive stream of an IWA file; -> (stream, [inflated sizes], n_stored)."""
    parts, sizes, stored = [], [], 0
    for payload in split_chunks(buf):
        try:
            data = snappy_decompress(payload)
        except (FormatError, IndexError):
            if not allow_stored:
                raise
            data = payload
            stored += 1
        parts.append(data)
        sizes.append(len(data))
    return b"".join(parts), sizes, stored


def build_file(stream, cuts=None, compressor=None, stored_mask=None):
    """Cut `stream` at the given offsets (default every 64 KiB) and frame each piece as a chunk."""
    if cuts is None:
        cuts = list(range(CHUNK, len(stream), CHUNK))
    bounds = [0] + sorted(set(c for c in cuts if 0 < c < len(stream))) + [len(stream)]
    out = bytearray()
    comp = compressor or snappy_compress_literal
    for i in range(len(bounds) - 1):
        piece = stream[bounds[i]:bounds[i + 1]]
        if not piece and len(stream):
            continue
        if stored_mask and stored_mask[i % len(stored_mask)]:
            payload = piece
        else:
            payload = comp(piece)
        if len(payload) >= 1 << 24:
            raise FormatError("payload too large for a 3-byte length")
        out += b"\x00" + len(payload).to_bytes(3, "little") + payload
    return bytes(out)


# ---------------------------------------------------------------- segments

def parse_archive_info(raw):
    """-> (identifier, [ {type, length, version[], object_references[], data_references[], raw} ], should_merge)"""
    ident, infos, merge = None, [], None
    for fno, wt, val, _ in wire_fields(raw):
        if fno == 1 and wt == 0:
            ident = val
        elif fno == 2 and wt == 2:
            mi = {"type": None, "length": None, "raw": val}
            for f2, w2, v2, _r in wire_fields(val):
                if f2 == 1 and w2 == 0:
                    mi["type"] = v2
                elif f2 == 3 and w2 == 0:
                    mi["length"] = v2
            infos.append(mi)
        elif fno == 3 and wt == 0:
            merge = val
    return ident, infos, merge


def parse_segments(stream):
    """-> list of dict(identifier, header=raw ArchiveInfo bytes, infos=[(type,length)], messages=[bytes])"""
    pos = 0
    out = []
    n = len(stream)
    while pos < n:
        hlen, p2 = read_varint(stream, pos)
        header = bytes(stream[p2:p2 + hlen])
        if len(header) != hlen:
            raise FormatError("truncated ArchiveInfo")
        ident, infos, _ = parse_archive_info(header)
        p3 = p2 + hlen
        msgs = []
        for mi in infos:
            ln = mi["length"] or 0
            m = bytes(stream[p3:p3 + ln])
            if len(m) != ln:
                raise FormatError("message length beyond the stream")
            msgs.append(m)
            p3 += ln
        out.append({"identifier": ident, "header": header, "infos": [(mi["type"], mi["length"] or 0) for mi in infos], "messages": msgs,
                    "header_len_varint": bytes(stream[pos:p2])})
        pos = p3
    return out


def build_segment(identifier, messages, version=(1, 0, 5), extra_info_fields=b""):
    """messages: list of (type, bytes) or, for a merge patch, (0, bytes, base_message_index, explicit): a segment holding a patch
    carries should_merge. Returns the segment bytes."""
    header = bytearray()
    header += b"\x08" + write_varint(identifier)
    for mtype, body, *patch in messages:
        mi = bytearray()
        mi += b"\x08" + write_varint(mtype)
        packed = b"".join(write_varint(v) for v in version)
        mi += b"\x12" + write_varint(len(packed)) + packed
        mi += b"\x18" + write_varint(len(body))
        mi += extra_info_fields
        if patch and (patch[0] or patch[1]):
            mi += b"\x38" + write_varint(patch[0])
        header += b"\x12" + write_varint(len(mi)) + bytes(mi)
    if any(len(m) > 2 for m in messages):
        header += b"\x18\x01"
    return write_varint(len(header)) + bytes(header) + b"".join(m[1] for m in messages)
