"""Documents produced by the library's own editing API from a JSON-able recipe.

A recipe is replayable: build(recipe) performs the same public API calls every time.  Recipes stay
inside the documented domains of each call, so that building never raises on a correct library."""
from datetime import datetime, timedelta

from hypothesis import strategies as st

from vf import gens

DATE_FORMATS = ["d MMM yyyy", "EEEE, d MMMM yyyy", "dd/MM/yy HH:mm", "h:mm a", "yyyy-MM-dd", "HH:mm:ss", "D", "MMM d, y"]
CURRENCIES = ["GBP", "USD", "EUR", "JPY", "CHF"]


def _fmt_kwargs(kind, kw):
    from numbers_parser import constants as k

    kw = dict(kw)
    if "negative_style" in kw:
        kw["negative_style"] = k.NegativeNumberStyle(kw["negative_style"])
    if "fraction_accuracy" in kw:
        kw["fraction_accuracy"] = k.FractionAccuracy(kw["fraction_accuracy"])
    if "control_format" in kw:
        kw["control_format"] = k.ControlFormattingType(kw["control_format"])
    return kw


def apply_table_ops(doc, table, ops, styles, customs=None):
    from numbers_parser import RGB, Border

    for op in ops:
        kind = op[0]
        if kind == "write":
            table.write(op[1], op[2], gens.from_json(op[3]))
        elif kind == "wfmt":
            _, r, c, vj, fkind, kw = op
            table.write(r, c, gens.from_json(vj))
            table.set_cell_formatting(r, c, fkind, **_fmt_kwargs(fkind, kw))
        elif kind == "cfmt":
            _, r, c, vj, name = op
            table.write(r, c, gens.from_json(vj))
            if customs and name in customs:
                table.set_cell_formatting(r, c, "custom", format=customs[name])
        elif kind == "merge":
            table.merge_cells(op[1])
        elif kind == "style":
            if styles:
                table.set_cell_style(op[1], op[2], styles[op[3] % len(styles)])
        elif kind == "border":
            _, r, c, side, width, rgb, bstyle, length = op
            table.set_cell_border(r, c, side, Border(float(width), RGB(*rgb), bstyle), length)
        elif kind == "rowh":
            table.row_height(op[1], op[2])
        elif kind == "colw":
            table.col_width(op[1], op[2])
        elif kind == "add_row":
            table.add_row(op[1], op[2])
        elif kind == "add_column":
            table.add_column(op[1], op[2])
        elif kind == "delete_row":
            table.delete_row(op[1], op[2])
        elif kind == "delete_column":
            table.delete_column(op[1], op[2])
        elif kind == "caption":
            table.caption = op[1]
            table.caption_enabled = op[2]
        elif kind == "name_enabled":
            table.table_name_enabled = op[1]
        else:
            raise ValueError(kind)


def build(recipe):
    from numbers_parser import RGB, Alignment, Document

    first_sheet = recipe["sheets"][0]
    t0 = first_sheet["tables"][0]
    doc = Document(sheet_name=first_sheet["name"], table_name=t0["name"], num_rows=t0["rows"], num_cols=t0["cols"],
                   num_header_rows=t0["hr"], num_header_cols=t0["hc"])
    styles = []
    for s in recipe.get("styles", []):
        kw = dict(s)
        if "font_color" in kw:
            kw["font_color"] = RGB(*kw["font_color"])
        if "bg_color" in kw and kw["bg_color"] is not None:
            kw["bg_color"] = RGB(*kw["bg_color"])
        if "alignment" in kw:
            kw["alignment"] = Alignment(*kw["alignment"])
        if "bg_image" in kw:
            from numbers_parser import BackgroundImage

            name, hexdata = kw["bg_image"]
            kw["bg_image"] = BackgroundImage(bytes.fromhex(hexdata), name)
        styles.append(doc.add_style(**kw))
    customs = {}
    for cf in recipe.get("custom_formats", []):
        customs[cf["name"]] = doc.add_custom_format(**cf)
    for si, sheet in enumerate(recipe["sheets"]):
        if si > 0:
            ft = sheet["tables"][0]
            doc.add_sheet(sheet["name"], ft["name"], ft["rows"], ft["cols"])
        sh = doc.sheets[si]
        for ti, t in enumerate(sheet["tables"]):
            if ti > 0:
                sh.add_table(t["name"], None, None, t["rows"], t["cols"], t["hr"], t["hc"])
            elif si > 0:
                table = sh.tables[0]
                table.num_header_rows = t["hr"]
                table.num_header_cols = t["hc"]
            apply_table_ops(doc, sh.tables[ti], t["ops"], styles, customs)
    return doc


# ------------------------------------------------------------------------------------------
# strategies

rgb = st.tuples(st.integers(0, 255), st.integers(0, 255), st.integers(0, 255)).map(list)


@st.composite
def number_format(draw):
    kind = draw(st.sampled_from(["number", "currency", "percentage", "scientific", "base", "fraction"]))
    kw = {}
    if kind in ("number", "percentage", "currency"):
        if draw(st.booleans()):
            kw["decimal_places"] = draw(st.integers(0, 6))
        kw["show_thousands_separator"] = draw(st.booleans())
        kw["negative_style"] = draw(st.integers(0, 3))
        if kind == "currency":
            kw["currency_code"] = draw(st.sampled_from(CURRENCIES))
            if kw["negative_style"] == 0:
                kw["use_accounting_style"] = draw(st.booleans())
    elif kind == "scientific":
        kw["decimal_places"] = draw(st.integers(0, 6))
    elif kind == "base":
        kw["base"] = draw(st.sampled_from([2, 8, 10, 16, 36, 7]))
        kw["base_places"] = draw(st.integers(0, 8))
        if kw["base"] in (2, 8, 16):
            kw["base_use_minus_sign"] = draw(st.booleans())
    else:
        kw["fraction_accuracy"] = draw(st.sampled_from([0xFFFFFFFD, 0xFFFFFFFE, 0xFFFFFFFF, 2, 4, 8, 16, 10, 100]))
    return kind, kw


moderate_numbers = st.one_of(st.integers(-100000, 100000), gens.price(), st.sampled_from([0, 0.5, -0.125, 1234567.891, 999.995, -0.004]))


CUSTOM_FORMATS = [
    {"name": "VF num", "type": "number", "num_integers": 3, "num_decimals": 2, "show_thousands_separator": True},
    {"name": "VF text", "type": "text", "format": "<%s>"},
    {"name": "VF date", "type": "datetime", "format": "yyyy-MM-dd 'at' HH:mm"},
]


@st.composite
def table_ops(draw, rows, cols, max_ops, nstyles, structural=True, merges=True, borders=True, customs=()):
    ops = []
    n = draw(st.integers(0, max_ops))
    merged = []  # rectangles already merged (r0, c0, r1, c1)

    def in_merge(r, c):
        return any(a <= r <= c2 and b <= c <= d for a, b, c2, d in merged)

    for _ in range(n):
        kind = draw(st.sampled_from(["write"] * 6 + ["wfmt"] * 4 + ["style", "border", "rowh", "colw", "merge", "struct", "caption"] + (["cfmt"] if customs else [])))
        r = draw(st.integers(0, rows - 1))
        c = draw(st.integers(0, cols - 1))
        if kind in ("write", "wfmt", "cfmt") and in_merge(r, c):
            continue  # writing into a merged region is C12's business
        if kind == "write":
            ops.append(["write", r, c, gens.to_json(draw(gens.cell_values))])
        elif kind == "wfmt":
            which = draw(st.sampled_from(["num", "num", "num", "date", "tick", "rating", "slider", "popup"]))
            if which == "num":
                fk, kw = draw(number_format())
                ops.append(["wfmt", r, c, gens.to_json(draw(moderate_numbers)), fk, kw])
            elif which == "date":
                ops.append(["wfmt", r, c, gens.to_json(draw(gens.datetimes_sec)), "datetime", {"date_time_format": draw(st.sampled_from(DATE_FORMATS))}])
            elif which == "tick":
                ops.append(["wfmt", r, c, gens.to_json(draw(st.booleans())), "tickbox", {}])
            elif which == "rating":
                ops.append(["wfmt", r, c, gens.to_json(draw(st.integers(0, 5))), "rating", {}])
            elif which == "slider":
                ops.append(["wfmt", r, c, gens.to_json(draw(st.integers(1, 100))), draw(st.sampled_from(["slider", "stepper"])),
                            {"minimum": 1.0, "maximum": 100.0, "increment": 1.0}])
            else:
                vals = ["Cat", "Dog", "Rabbit"]
                ops.append(["wfmt", r, c, gens.to_json(draw(st.sampled_from(vals))), "popup", {"popup_values": vals, "allow_none": draw(st.booleans())}])
        elif kind == "cfmt":
            cf = draw(st.sampled_from(list(customs)))
            v = {"number": draw(moderate_numbers) if cf["type"] == "number" else None}.get(cf["type"])
            if cf["type"] == "text":
                v = draw(st.sampled_from(["abc", "x y", ""]))
            elif cf["type"] == "datetime":
                v = draw(gens.datetimes_sec)
            ops.append(["cfmt", r, c, gens.to_json(v), cf["name"]])
        elif kind == "style" and nstyles:
            ops.append(["style", r, c, draw(st.integers(0, nstyles - 1))])
        elif kind == "border" and borders and not merged:
            side = draw(st.sampled_from(["top", "right", "bottom", "left"]))
            length = draw(st.integers(1, (cols - c) if side in ("top", "bottom") else (rows - r)))
            ops.append(["border", r, c, side, draw(st.sampled_from([0.25, 0.5, 1.0, 2.0, 3.5, 8.0])), draw(rgb),
                        draw(st.sampled_from(["solid", "dashes", "dots"])), length])
        elif kind == "rowh":
            ops.append(["rowh", r, draw(st.integers(5, 300))])
        elif kind == "colw":
            ops.append(["colw", c, draw(st.integers(5, 300))])
        elif kind == "merge" and merges and rows >= 2 and cols >= 2:
            r1 = draw(st.integers(r, min(rows - 1, r + 3)))
            c1 = draw(st.integers(c, min(cols - 1, c + 3)))
            if r < rows - 1 and draw(st.integers(0, 2)) == 0:
                # a banner across the full width over several rows: the rows below its first one have no stored cell at all
                c, c1 = 0, cols - 1
                r1 = draw(st.integers(r + 1, min(rows - 1, r + 3)))
            if (r1, c1) == (r, c):
                continue
            if any(not (r1 < a or c2 < r or c1 < b or d < c) for a, b, c2, d in merged):
                continue
            merged.append((r, c, r1, c1))
            from vf import a1

            ops.append(["merge", a1.cell_name(r, c) + ":" + a1.cell_name(r1, c1)])
        elif kind == "struct" and structural and not merged:
            which = draw(st.sampled_from(["add_row", "add_column", "delete_row", "delete_column"]))
            if which == "add_row":
                cnt = draw(st.integers(1, 2))
                ops.append(["add_row", cnt, draw(st.none() | st.integers(0, rows - 1))])
                rows += cnt
            elif which == "add_column":
                cnt = draw(st.integers(1, 2))
                ops.append(["add_column", cnt, draw(st.none() | st.integers(0, cols - 1))])
                cols += cnt
            elif which == "delete_row" and rows >= 4:
                ops.append(["delete_row", 1, draw(st.none() | st.integers(2, rows - 1))])
                rows -= 1
            elif which == "delete_column" and cols >= 4:
                ops.append(["delete_column", 1, draw(st.none() | st.integers(2, cols - 1))])
                cols -= 1
        elif kind == "caption":
            ops.append(["caption", draw(st.text(max_size=12)), draw(st.booleans())])
    return ops


@st.composite
def style_specs(draw, n):
    out = []
    for i in range(n):
        s = {"name": f"VStyle {i}"}
        if draw(st.booleans()):
            s["bold"] = draw(st.booleans())
        if draw(st.booleans()):
            s["italic"] = draw(st.booleans())
        if draw(st.booleans()):
            s["font_size"] = float(draw(st.integers(6, 40)))
        if draw(st.booleans()):
            s["font_color"] = draw(rgb)
        if draw(st.booleans()):
            if draw(st.integers(0, 3)) == 0:
                data = bytes([137, 80, 78, 71, 13, 10, 26, 10]) + draw(st.binary(min_size=4, max_size=30))
                # some names look like other things a package holds (an inner zip, a document, an archive)
                suffix = draw(st.sampled_from([".png", ".png", ".png", "-index.zip", ".numbers.png", ".iwa.png"]))
                s["bg_image"] = [f"docgen_img_{i}_{draw(st.integers(0, 10**6))}{suffix}", data.hex()]
                if i == 0 and draw(st.integers(0, 5)) == 0:
                    s["bg_image"][0] = draw(st.sampled_from(["Index.zip", "index.zip", "Metadata.plist"]))   # a data file named like a part of the package
            else:
                s["bg_color"] = draw(rgb)
        if draw(st.booleans()):
            s["alignment"] = [draw(st.sampled_from(["left", "right", "center", "justified", "auto"])), draw(st.sampled_from(["top", "middle", "bottom"]))]
        out.append(s)
    return out


@st.composite
def recipes(draw, max_sheets=2, max_tables=2, max_ops=30, shapes=None, **opkw):
    shapes = shapes or [(3, 3), (4, 5), (6, 4), (12, 8), (2, 2), (8, 3)]
    nstyles = draw(st.integers(0, 3))
    styles = draw(style_specs(nstyles))
    customs = draw(st.lists(st.sampled_from(CUSTOM_FORMATS), unique_by=lambda c: c["name"], max_size=3))
    sheets = []
    for si in range(draw(st.integers(1, max_sheets))):
        tables = []
        for ti in range(draw(st.integers(1, max_tables))):
            rows, cols = draw(st.sampled_from(shapes))
            hr = draw(st.integers(0, min(2, rows - 1)))
            hc = draw(st.integers(0, min(2, cols - 1)))
            tables.append({"name": f"Table {ti + 1}" if draw(st.booleans()) else f"T{si}{ti}", "rows": rows, "cols": cols, "hr": hr, "hc": hc,
                           "ops": draw(table_ops(rows, cols, max_ops, nstyles, customs=tuple(customs) if customs else (), **opkw))})
        sheets.append({"name": f"Sheet {si + 1}" if draw(st.booleans()) else f"S{si}", "tables": tables})
    return {"styles": styles, "custom_formats": customs, "sheets": sheets}
