"""Shared Hypothesis strategies: cell values of C01's domain."""
from datetime import datetime, timedelta
from decimal import Decimal

from hypothesis import strategies as st

# ---- numbers -------------------------------------------------------------------------------

@st.composite
def float15(draw, max_exp=290):
    """A finite float with <= 15 significant decimal digits, built by construction."""
    k = draw(st.integers(1, 15))
    first = draw(st.integers(1, 9))
    rest = draw(st.lists(st.integers(0, 9), min_size=k - 1, max_size=k - 1))
    digits = (first, *rest)
    # magnitude: 10^(e+k-1) <= |x| < 10^(e+k); keep within 1e-290..1e290
    mag = draw(st.integers(-max_exp, max_exp - 1) | st.integers(-6, 14))
    e = mag - (k - 1)
    sign = draw(st.integers(0, 1))
    return float(Decimal((sign, digits, e)))


def price():
    return st.integers(-999_999, 999_999).map(lambda n: n / 100)


ints15 = st.integers(-(10**15) + 1, 10**15 - 1)
small_ints = st.integers(-3000, 3000)
numbers = st.one_of(small_ints, ints15, float15(), price(), st.just(0.0),
                    st.integers(0, 15).flatmap(lambda k: st.sampled_from([10**k, 10**k - 1, 10**k + 1, -(10**k)])))

# ---- text ------------------------------------------------------------------------------------
plain_text = st.text(max_size=50)  # all Unicode scalar values (no surrogates), incl. \x00 CR LF astral
tricky_text = st.sampled_from(["", " ", "\n", "\r\n", "a\rb", "\x00", "tab\there", "😀", "𝔘𝔫𝔦", "é", "", "x" * 300,
                               "=SUM(A1)", "'", '"', "1", "1.5", "TRUE", "nan", "€", " ", "﻿", "a" * 50])
texts = plain_text | tricky_text

# ---- dates / durations ---------------------------------------------------------------------------
datetimes_sec = st.datetimes(min_value=datetime(1, 1, 1), max_value=datetime(9999, 12, 31, 23, 59, 59)).map(
    lambda d: d.replace(microsecond=0))
datetimes_us = st.datetimes(min_value=datetime(1900, 1, 1), max_value=datetime(2100, 12, 31, 23, 59, 59, 999999))
datetimes = datetimes_sec | datetimes_us | st.sampled_from(
    [datetime(2001, 1, 1), datetime(1, 1, 1), datetime(9999, 12, 31, 23, 59, 59), datetime(2000, 2, 29, 12, 0, 0, 1),
     datetime(1970, 1, 1), datetime(1900, 1, 1, 0, 0, 0, 999999), datetime(2100, 12, 31, 23, 59, 59, 999999)])
_100Y = 36525
timedeltas = st.timedeltas(min_value=timedelta(days=-_100Y), max_value=timedelta(days=_100Y)) | st.sampled_from(
    [timedelta(0), timedelta(microseconds=1), timedelta(microseconds=-1), timedelta(days=_100Y), timedelta(days=-_100Y),
     timedelta(seconds=59, microseconds=999999), timedelta(weeks=1), timedelta(hours=1)])

cell_values = st.one_of(texts, st.booleans(), numbers, numbers, datetimes, timedeltas)
simple_values = st.one_of(st.sampled_from(["a", "b", "", "x y"]), st.booleans(), st.integers(-50, 50),
                          st.sampled_from([1.5, 0.25, -2.75]), st.sampled_from([datetime(2020, 1, 2, 3, 4, 5)]),
                          st.sampled_from([timedelta(hours=1, seconds=2)]))


def to_json(v):
    """JSON-able, replayable encoding of a cell value."""
    if isinstance(v, bool):
        return {"t": "bool", "v": v}
    if isinstance(v, int):
        return {"t": "int", "v": str(v)}
    if isinstance(v, float):
        return {"t": "float", "v": v.hex()}
    if isinstance(v, str):
        return {"t": "str", "v": v}
    if isinstance(v, datetime):
        return {"t": "dt", "v": [v.year, v.month, v.day, v.hour, v.minute, v.second, v.microsecond]}
    if isinstance(v, timedelta):
        return {"t": "td", "v": [v.days, v.seconds, v.microseconds]}
    if v is None:
        return {"t": "none"}
    raise TypeError(type(v))


def from_json(j):
    t = j["t"]
    if t == "bool":
        return bool(j["v"])
    if t == "int":
        return int(j["v"])
    if t == "float":
        return float.fromhex(j["v"])
    if t == "str":
        return j["v"]
    if t == "dt":
        return datetime(*j["v"])
    if t == "td":
        d, s, us = j["v"]
        return timedelta(days=d, seconds=s, microseconds=us)
    if t == "none":
        return None
    raise TypeError(t)


CLASS_FOR = {str: "TextCell", bool: "BoolCell", int: "NumberCell", float: "NumberCell", datetime: "DateCell",
             timedelta: "DurationCell", type(None): "EmptyCell"}
