"""Independent package reader: a .numbers document is a zip (or a folder with Index.zip + loose files)."""
import io
import zipfile
from pathlib import Path


def _open(src):
    """Names without the UTF-8 flag are UTF-8 in Numbers-written archives (the library reads them the same way)."""
    try:
        return zipfile.ZipFile(src, metadata_encoding="utf-8")
    except UnicodeDecodeError:
        return zipfile.ZipFile(src)


def members(path):
    """-> ordered list of (name, bytes) for every file of the document (Index.zip expanded)."""
    path = Path(path)
    out = []
    if path.is_dir():
        for sub in sorted(path.rglob("*")):
            if sub.is_dir():
                continue
            rel = str(sub.relative_to(path))
            data = sub.read_bytes()
            if sub.name.lower() == "index.zip" and sub.parent.name != "Data":   # below Data/ it is a data file of that name
                with _open(io.BytesIO(data)) as z:
                    for n in z.namelist():
                        out.append((n, z.read(n)))
            else:
                out.append((rel, data))
        return out
    with _open(path) as z:
        for n in z.namelist():
            data = z.read(n)
            if n.lower().rsplit("/", 1)[-1] == "index.zip" and not (n.startswith("Data/") or "/Data/" in n):
                # the inner archive itself, not a data file called photo-index.zip or Data/Index.zip
                with _open(io.BytesIO(data)) as z2:
                    for n2 in z2.namelist():
                        out.append((n2, z2.read(n2)))
            else:
                out.append((n, data))
    return out


def iwa_members(path):
    return [(n, d) for n, d in members(path) if n.endswith(".iwa")]


def write_zip(path, items, compression=zipfile.ZIP_STORED, per_member=None):
    """items: list of (name, bytes). per_member: optional list of compression methods aligned with items."""
    with zipfile.ZipFile(path, "w") as z:
        for i, (n, d) in enumerate(items):
            method = per_member[i] if per_member else compression
            z.writestr(zipfile.ZipInfo(n), d, compress_type=method)
