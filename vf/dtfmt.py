"""Documented meaning of each date/time directive (docs/api/datetime.rst) as calendar arithmetic, and a
reader for displayed durations.  English names; naive datetimes."""
import re
from datetime import datetime

MONTHS = ["January", "February", "March", "April", "May", "June", "July", "August", "September", "October", "November", "December"]
DAYS = ["Monday", "Tuesday", "Wednesday", "Thursday", "Friday", "Saturday", "Sunday"]

DIRECTIVES = ["a", "EEEE", "EEE", "yyyy", "yy", "y", "MMMM", "MMM", "MM", "M", "d", "dd", "DDD", "DD", "D", "HH", "H", "hh", "h", "k", "kk",
              "K", "KK", "mm", "m", "ss", "s", "W", "ww", "G", "F", "S", "SS", "SSS", "SSSS", "SSSSS"]


def expected(directive, dt: datetime):
    """Set of acceptable renderings (a set where documentation and Numbers-authored workbooks disagree or are silent)."""
    h, mi, s, us = dt.hour, dt.minute, dt.second, dt.microsecond
    yday = (dt - datetime(dt.year, 1, 1)).days + 1
    h12 = ((h + 11) % 12) + 1
    first_wd = datetime(dt.year, dt.month, 1).weekday()  # Monday = 0
    d = directive
    if d == "a":
        return {"am" if h < 12 else "pm"}
    if d == "EEEE":
        return {DAYS[dt.weekday()]}
    if d == "EEE":
        return {DAYS[dt.weekday()][:3]}
    if d == "yyyy":
        return {str(dt.year), f"{dt.year:04d}"}
    if d == "yy":
        return {f"{dt.year % 100:02d}"}
    if d == "y":
        return {str(dt.year), str(dt.year % 100)}
    if d == "MMMM":
        return {MONTHS[dt.month - 1]}
    if d == "MMM":
        return {MONTHS[dt.month - 1][:3]}
    if d == "MM":
        return {f"{dt.month:02d}"}
    if d == "M":
        return {str(dt.month)}
    if d == "d":
        return {str(dt.day)}
    if d == "dd":
        return {f"{dt.day:02d}"}
    if d == "DDD":
        return {f"{yday:03d}"}
    if d == "DD":
        return {f"{yday:02d}"}
    if d == "D":
        return {str(yday)}
    if d == "HH":
        return {f"{h:02d}"}
    if d == "H":
        return {str(h)}
    if d == "hh":
        return {f"{h12:02d}"}
    if d == "h":
        return {str(h12)}
    if d == "k":
        return {str(h if h else 24)}
    if d == "kk":
        return {f"{h if h else 24:02d}"}
    if d == "K":
        return {str(h % 12)}
    if d == "KK":
        return {f"{h % 12:02d}"}
    if d == "mm":
        return {f"{mi:02d}"}
    if d == "m":
        return {str(mi)}
    if d == "ss":
        return {f"{s:02d}"}
    if d == "s":
        return {str(s)}
    if d == "W":
        mon = (dt.day - 1 + first_wd) // 7
        sun = (dt.day - 1 + (first_wd + 1) % 7) // 7
        return {str(mon), str(sun)}
    if d == "ww":
        w = (yday + 6 - dt.weekday()) // 7
        return {str(w), f"{w:02d}"}
    if d == "G":
        return {"AD"}
    if d == "F":
        return {str((dt.day - 1) // 7 + 1)}
    if d in ("S", "SS", "SSS", "SSSS", "SSSSS"):
        return {f"{us:06d}"[: len(d)]}
    raise ValueError(directive)


FIELD_OF = {
    "hour": ["a", "HH", "H", "hh", "h", "k", "kk", "K", "KK"],
    "minute": ["mm", "m"],
    "second": ["ss", "s"],
    "day": ["EEEE", "EEE", "MMMM", "MMM", "MM", "M", "d", "dd", "DDD", "DD", "D", "W", "ww", "F"],
    "year": ["yyyy", "yy", "y", "G"],
    "subsecond": ["S", "SS", "SSS", "SSSS", "SSSSS"],
}

# ------------------------------------------------------------------------------------------
# durations

UNIT_MS = {"w": 604_800_000, "d": 86_400_000, "h": 3_600_000, "m": 60_000, "s": 1000, "ms": 1}
ORDER = ["w", "d", "h", "m", "s", "ms"]
ENUM = {"w": 1, "d": 2, "h": 4, "m": 8, "s": 16, "ms": 32}
LONG = {"week": "w", "day": "d", "hour": "h", "minute": "m", "second": "s", "millisecond": "ms"}


class BadDuration(Exception):
    def __init__(self, kind, msg):
        super().__init__(msg)
        self.kind = kind


def unit_range(largest, smallest):
    i, j = ORDER.index(largest), ORDER.index(smallest)
    return ORDER[i:j + 1]


def check_duration(text, d_ms, style, largest, smallest, automatic):
    """style 0 compact, 1 short, 2 long; largest/smallest unit names; d_ms exact duration in milliseconds."""
    if style == 0:
        toks = re.split(r"[:.]", text)
        if not toks or any(not re.fullmatch(r"[0-9]+", t) for t in toks):
            raise BadDuration("unparseable", f"compact duration text {text!r}")
        nums = [int(t) for t in toks]
        if not automatic:
            units = unit_range(largest, smallest)
            if len(nums) != len(units):
                raise BadDuration("field_count", f"compact text {text!r} has {len(nums)} fields for units {units}")
            candidates = [units]
        else:
            n = len(nums)
            candidates = [ORDER[i:i + n] for i in range(0, len(ORDER) - n + 1)]
            if "." in text:
                candidates = [c for c in candidates if c[-1] == "ms"]
        ok = False
        for units in candidates:
            total = sum(k * UNIT_MS[u] for k, u in zip(nums, units))
            u = UNIT_MS[units[-1]]
            if total == (d_ms // u) * u:
                ok = True
                break
        if not ok:
            raise BadDuration("value", f"compact text {text!r} does not read back to {d_ms} ms truncated to its smallest unit (units tried {candidates})")
        return
    if style == 1:
        toks = text.split(" ")
        parsed = []
        for t in toks:
            m = re.fullmatch(r"([0-9]+)(ms|w|d|h|m|s)", t)
            if not m:
                raise BadDuration("unparseable", f"short duration text {text!r}")
            parsed.append((int(m.group(1)), m.group(2)))
    else:
        m = re.fullmatch(r"(?:[0-9]+ [a-z]+)(?: [0-9]+ [a-z]+)*", text)
        if not m:
            raise BadDuration("unparseable", f"long duration text {text!r}")
        parts = text.split(" ")
        parsed = []
        for k, word in zip(parts[0::2], parts[1::2]):
            n = int(k)
            base = word[:-1] if word.endswith("s") and word[:-1] in LONG else word
            if base not in LONG:
                raise BadDuration("unparseable", f"long duration text {text!r}: unit {word!r}")
            plural = word != base
            if plural == (n == 1):
                raise BadDuration("plural", f"long duration text {text!r}: {n} {word}")
            parsed.append((n, LONG[base]))
    units = [u for _, u in parsed]
    idx = [ORDER.index(u) for u in units]
    if idx != list(range(idx[0], idx[0] + len(idx))):
        raise BadDuration("unit_order", f"duration text {text!r} names units {units}, not a contiguous descending range")
    if not automatic and units != unit_range(largest, smallest):
        raise BadDuration("units", f"duration text {text!r} names units {units}, format asks for {unit_range(largest, smallest)}")
    total = sum(n * UNIT_MS[u] for n, u in parsed)
    u = UNIT_MS[units[-1]]
    if total != (d_ms // u) * u:
        raise BadDuration("value", f"duration text {text!r} reads {total} ms, value is {d_ms} ms (truncated to {units[-1]}: {(d_ms // u) * u})")
